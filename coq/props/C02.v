(* C02 -- parse() inverts every supported unambiguous date/time rendering.
   Statements only; proofs are in parse/YearThm.v and parse/Render*.v over the hand model. *)
From Coq Require Import ZArith List Bool.
From V Require Import base.Cal gen.ParseTables parse.Lex parse.Prim parse.Ymd parse.Parse parse.Build
                      parse.ParseSpec parse.YearThm parse.RenderIso.
Import ListNotations.
Open Scope Z_scope.

(* two-digit years resolve to the unique year within -50..+49 of the current year *)
Theorem C02_convertyear_pivot : forall y cur,
  0 <= y < 100 ->
  exists r, convertyear cur y false = Ok r /\ cur - 50 <= r < cur + 50 /\ r mod 100 = y.
Proof. exact convertyear_pivot_lemma. Qed.
Print Assumptions C02_convertyear_pivot.

Theorem C02_convertyear_unique : forall cur y r1 r2,
  cur - 50 <= r1 < cur + 50 -> cur - 50 <= r2 < cur + 50 -> r1 mod 100 = y -> r2 mod 100 = y -> r1 = r2.
Proof. exact convertyear_unique. Qed.
Print Assumptions C02_convertyear_unique.

(* ---- parse_render_<template>: for ALL valid datetimes and defaults ----
   12 templates: {YYYY-MM-DD, YYYY/MM/DD} x {T, space} x {HH:MM, HH:MM:SS} (dayfirst = False,
   yearfirst arbitrary) and MM/DD/YYYY x {T, space} x {HH:MM, HH:MM:SS} (dayfirst = yearfirst = False);
   ignoretz, default, parserinfo year, local zone names arbitrary.  Naive result = the datetime
   truncated to the rendered precision, fields not rendered taken from the default. *)
Theorem C02_parse_render_numeric_date_time : forall f j tf d o df cy loc n0 n1 yf ig,
  In f plain_dforms -> In j plain_joiners -> In tf plain_tforms ->
  valid_dt d = true -> valid_dt df = true ->
  parse (opts_df0 yf ig df cy loc n0 n1) (render (TDT f j tf ONone) d o)
  = OutOk (expected_dt (TDT f j tf ONone) d df) ZNaive 0 false [].
Proof. exact parse_render_numeric_date_time_lemma. Qed.
Print Assumptions C02_parse_render_numeric_date_time.

Theorem C02_parse_render_us_date_time : forall j tf d o df cy loc n0 n1 ig,
  In j plain_joiners -> In tf plain_tforms ->
  valid_dt d = true -> valid_dt df = true ->
  parse (opts_df0 false ig df cy loc n0 n1) (render (TDT DUS j tf ONone) d o)
  = OutOk (expected_dt (TDT DUS j tf ONone) d df) ZNaive 0 false [].
Proof. exact parse_render_us_date_time_lemma. Qed.
Print Assumptions C02_parse_render_us_date_time.

(* non-vacuity: the hypotheses are satisfiable and the rendering is the expected text *)
Example C02_render_example :
  In DIso plain_dforms /\ In JT plain_joiners /\ In THMS plain_tforms /\
  valid_dt (mkDt 2003 9 25 10 49 41 0) = true /\
  render (TDT DIso JT THMS ONone) (mkDt 2003 9 25 10 49 41 0) (mkOff true 0 0)
  = [50;48;48;51;45;48;57;45;50;53;84;49;48;58;52;57;58;52;49].
Proof. repeat split; try (cbn; auto; fail); vm_compute; reflexivity. Qed.
