(* C02 -- parse() inverts every supported unambiguous date/time rendering.
   CORE file: model/spec theorems, one representative parse_render theorem per template family, the open
   findings' refutations and the tzlocal theorems.  Every further parse_render_<template> theorem is in
   coq/props/C02x.v (same conventions; compiled by `make`, by the thorough tier and by setup).
   Statements only; proofs are in parse/YearThm.v and parse/Render*.v over the hand model. *)
From Coq Require Import ZArith List Bool.
From V Require Import base.Cal gen.ParseTables parse.Lex parse.Prim parse.Ymd parse.Parse parse.Build
                      parse.ParseSpec parse.YearThm parse.RenderIso parse.RenderName parse.FracFacts
                      parse.RenderUtc parse.RenderRefuted parse.RenderFrac parse.RenderCommaMon parse.RenderCommaMonth
                      parse.RenderCompact parse.Render12HM parse.Render12HMS parse.RenderOff parse.RenderCtime
                      parse.RenderRfc parse.RenderComma12 parse.RenderCommaDefs parse.RenderOffDefs parse.Render12Defs parse.RenderMisc parse.RenderFlags parse.RenderOff4 parse.Render12H parse.RenderUtcDefs parse.RenderUtcB parse.RenderUtcC parse.RenderUtcD
                      parse.RenderCompactUtc.
Import ListNotations.
Open Scope Z_scope.

(* two-digit years resolve to the unique year within -50..+49 of the current year *)
Theorem C02_convertyear_pivot : forall y cur,
  0 <= y < 100 ->
  exists r, convertyear cur y false = Ok r /\ cur - 50 <= r < cur + 50 /\ r mod 100 = y.
Proof. exact convertyear_pivot_lemma. Qed.
Print Assumptions C02_convertyear_pivot.

Theorem C02_convertyear_unique : forall cur y r1 r2,
  cur - 50 <= r1 < cur + 50 -> cur - 50 <= r2 < cur + 50 -> r1 mod 100 = y -> r2 mod 100 = y -> r1 = r2.
Proof. exact convertyear_unique. Qed.
Print Assumptions C02_convertyear_unique.

(* ---- parse_render_<template>: for ALL valid datetimes and defaults ----
   12 templates: {YYYY-MM-DD, YYYY/MM/DD} x {T, space} x {HH:MM, HH:MM:SS} (dayfirst = False,
   yearfirst arbitrary) and MM/DD/YYYY x {T, space} x {HH:MM, HH:MM:SS} (dayfirst = yearfirst = False);
   ignoretz, default, parserinfo year, local zone names arbitrary.  Naive result = the datetime
   truncated to the rendered precision, fields not rendered taken from the default. *)
Theorem C02_parse_render_numeric_date_time : forall f j tf d o df cy loc n0 n1 yf ig,
  In f plain_dforms -> In j plain_joiners -> In tf plain_tforms ->
  valid_dt d = true -> valid_dt df = true ->
  parse (opts_df0 yf ig df cy loc n0 n1) (render (TDT f j tf ONone) d o)
  = OutOk (expected_dt (TDT f j tf ONone) d df) ZNaive 0 false [].
Proof. exact parse_render_numeric_date_time_lemma. Qed.
Print Assumptions C02_parse_render_numeric_date_time.

(* non-vacuity: the hypotheses are satisfiable and the rendering is the expected text *)
Example C02_render_example :
  In DIso plain_dforms /\ In JT plain_joiners /\ In THMS plain_tforms /\
  valid_dt (mkDt 2003 9 25 10 49 41 0) = true /\
  render (TDT DIso JT THMS ONone) (mkDt 2003 9 25 10 49 41 0) (mkOff true 0 0)
  = [50;48;48;51;45;48;57;45;50;53;84;49;48;58;52;57;58;52;49].
Proof. repeat split; try (cbn; auto; fail); vm_compute; reflexivity. Qed.

(* 6 templates: DD Mon YYYY and DD Month YYYY, alone or followed by " HH:MM" / " HH:MM:SS";
   guard 100 <= year: years 1..99 are the open finding F-C02-padyear (refuted below) *)
Theorem C02_parse_render_name_date : forall f jt d o df cy loc n0 n1 yf ig,
  In f name_dforms -> In jt name_tails ->
  valid_dt d = true -> valid_dt df = true -> 100 <= d_y d ->
  parse (opts_df0 yf ig df cy loc n0 n1) (render (TDT f (fst jt) (snd jt) ONone) d o)
  = OutOk (expected_dt (TDT f (fst jt) (snd jt) ONone) d df) ZNaive 0 false [].
Proof. exact parse_render_name_date_lemma. Qed.
Print Assumptions C02_parse_render_name_date.

(* fractions, token level: the seconds token "SS.f" (f = the first k digits of the six-digit
   microsecond, zero-extended beyond six; the lexer has already turned a decimal comma into a dot,
   LexSeg.lex_frac) is read by _parsems as (SS, microsecond truncated to k digits), k = 1..9.
   Whole-template statements for the fraction forms: C02_parse_render_iso_frac below and the
   `_frac_*` / `_iso_frac_*` / `_compact_frac*` theorems of coq/props/C02x.v. *)
Theorem C02_frac_token_value : forall s k us,
  0 <= s < 100 -> (1 <= k <= 9)%nat -> 0 <= us < 1000000 ->
  parsems (digits_n 2 s ++ 46 :: frac_digits k us) = Ok (s, trunc_us k us).
Proof. exact tok_parsems_frac. Qed.
Print Assumptions C02_frac_token_value.

(* 6 templates: YYYY-MM-DD{T, space}HH:MM:SS followed by Z / " UTC" / " GMT": aware, UTC.
   Hypothesis: UTC and GMT are not names of the local zone (time.tzname); with ignoretz: naive *)
Theorem C02_parse_render_iso_utc : forall j ofm d o df cy loc n0 n1 yf ig,
  In j plain_joiners -> In ofm utc_oforms ->
  valid_dt d = true -> valid_dt df = true ->
  smem [85; 84; 67] loc = false -> smem [71; 77; 84] loc = false ->
  parse (opts_df0 yf ig df cy loc n0 n1) (render (TDT DIso j THMS ofm) d o)
  = OutOk (expected_dt (TDT DIso j THMS ofm) d df) (if ig then ZNaive else ZUTC) 0 false [].
Proof. exact parse_render_iso_utc_lemma. Qed.
Print Assumptions C02_parse_render_iso_utc.

(* 36 templates: YYYY-MM-DD{T, space}HH:MM:SS{. ,}f with k = 1..9 fraction digits: the microsecond
   is the rendered fraction truncated to six digits *)
Theorem C02_parse_render_iso_frac : forall j k comma d o df cy loc n0 n1 yf ig,
  In j plain_joiners -> (1 <= k <= 9)%nat ->
  valid_dt d = true -> valid_dt df = true ->
  parse (opts_df0 yf ig df cy loc n0 n1) (render (TDT DIso j (TFrac k comma) ONone) d o)
  = OutOk (expected_dt (TDT DIso j (TFrac k comma) ONone) d df) ZNaive 0 false [].
Proof. intros j k comma. exact (frac_case j k comma). Qed.
Print Assumptions C02_parse_render_iso_frac.

(* 6 templates: "Mon DD, YYYY" / "Month DD, YYYY", alone or followed by " HH:MM" / " HH:MM:SS";
   guard 100 <= year (F-C02-padyear) *)
Theorem C02_parse_render_mon_dd_yyyy : forall jt d o df cy loc n0 n1 yf ig,
  In jt comma_tails ->
  valid_dt d = true -> valid_dt df = true -> 100 <= d_y d ->
  parse (opts_df0 yf ig df cy loc n0 n1) (render (TDT DMonDY (fst jt) (snd jt) ONone) d o)
  = OutOk (expected_dt (TDT DMonDY (fst jt) (snd jt) ONone) d df) ZNaive 0 false [].
Proof. exact parse_render_mon_dd_yyyy_lemma. Qed.
Print Assumptions C02_parse_render_mon_dd_yyyy.

(* 9 templates: YYYYMMDD, YYYYMMDD{T, space}HHMM[SS], YYYYMMDDHHMM[SS] (12 / 14 digits),
   YYYYMMDDTHH:MM[:SS] *)
Theorem C02_parse_render_compact : forall jt d o df cy loc n0 n1 yf ig,
  In jt compact_tails ->
  valid_dt d = true -> valid_dt df = true ->
  parse (opts_df0 yf ig df cy loc n0 n1) (render (TDT DCompact (fst jt) (snd jt) ONone) d o)
  = OutOk (expected_dt (TDT DCompact (fst jt) (snd jt) ONone) d df) ZNaive 0 false [].
Proof. exact parse_render_compact_lemma. Qed.
Print Assumptions C02_parse_render_compact.

(* 4 templates: YYYY-MM-DD hh:MM[:SS][ ]AM|PM -- 12 AM is 00, 12 PM is 12 *)
Theorem C02_parse_render_12h_hm : forall spaced d o df cy loc n0 n1 yf ig,
  valid_dt d = true -> valid_dt df = true ->
  parse (opts_df0 yf ig df cy loc n0 n1) (render (TDT DIso JSpace (T12HM spaced) ONone) d o)
  = OutOk (expected_dt (TDT DIso JSpace (T12HM spaced) ONone) d df) ZNaive 0 false [].
Proof. exact parse_render_12h_hm_lemma. Qed.
Print Assumptions C02_parse_render_12h_hm.

(* 8 templates x sign: YYYY-MM-DD{T, space}{HH:MM, HH:MM:SS}{+HH:MM, -HH:MM, +HH, -HH}, offsets
   -23:59..+23:59: aware with exactly the rendered offset (UTC when zero); "UTC" not a local name *)
Theorem C02_parse_render_iso_offset : forall j tf ofm d o df cy loc n0 n1 yf ig,
  In j plain_joiners -> In tf plain_tforms -> In ofm zone_oforms ->
  valid_dt d = true -> valid_dt df = true -> wf_off o = true -> smem utc_name loc = false ->
  parse (opts_df0 yf ig df cy loc n0 n1) (render (TDT DIso j tf ofm) d o)
  = OutOk (expected_dt (TDT DIso j tf ofm) d df)
          (if ig then ZNaive else
           match expected_off (TDT DIso j tf ofm) o with Some v => zone_of_off v | None => ZNaive end)
          0 false [].
Proof. exact parse_render_iso_offset_lemma. Qed.
Print Assumptions C02_parse_render_iso_offset.

(* ctime(): "Www Mon DD HH:MM:SS YYYY", day space-padded; guard 100 <= year *)
Theorem C02_parse_render_ctime : forall d o df cy loc n0 n1 yf ig,
  valid_dt d = true -> valid_dt df = true -> 100 <= d_y d ->
  parse (opts_df0 yf ig df cy loc n0 n1) (render TCtime d o)
  = OutOk (expected_dt TCtime d df) ZNaive 0 false [].
Proof. exact parse_render_ctime_lemma. Qed.
Print Assumptions C02_parse_render_ctime.

(* RFC 2822 with a named UTC zone: "Www, DD Mon YYYY HH:MM:SS GMT" / "... UTC" *)
Theorem C02_parse_render_rfc_named : forall (gmt : bool) d o df cy loc n0 n1 yf ig,
  valid_dt d = true -> valid_dt df = true -> 100 <= d_y d ->
  smem [85; 84; 67] loc = false -> smem [71; 77; 84] loc = false ->
  parse (opts_df0 yf ig df cy loc n0 n1) (render (TRfc (if gmt then OGMT else OUTC)) d o)
  = OutOk (expected_dt (TRfc (if gmt then OGMT else OUTC)) d df) (if ig then ZNaive else ZUTC) 0 false [].
Proof. exact parse_render_rfc_named_lemma. Qed.
Print Assumptions C02_parse_render_rfc_named.

(* 6 templates: YYYY-MM-DD / YYYY/MM/DD alone; HH:MM / HH:MM:SS alone (date from the default);
   YYYY-MM-DD NNhNNmNNs / YYYY/MM/DD NNhNNmNNs *)
Theorem C02_parse_render_misc : forall t d o df cy loc n0 n1 yf ig,
  In t misc_templates ->
  valid_dt d = true -> valid_dt df = true ->
  parse (opts_df0 yf ig df cy loc n0 n1) (render t d o)
  = OutOk (expected_dt t d df) ZNaive 0 false [].
Proof. exact parse_render_misc_lemma. Qed.
Print Assumptions C02_parse_render_misc.

(* 9 templates under their flags (given as keywords): DD/MM/YYYY with dayfirst=True; YY-MM-DD with
   yearfirst=True and MM/DD/YY without flags, for years within -50..+49 of the parserinfo year
   (guard_year); each alone or followed by " HH:MM" / " HH:MM:SS" *)
Theorem C02_parse_render_flag_dates : forall f jt d o df cy loc n0 n1 ig,
  In f flag_dforms -> In jt flag_tails ->
  valid_dt d = true -> valid_dt df = true ->
  guard_year (TDT f (fst jt) (snd jt) ONone) cy d = true ->
  parse (opts_kw (fst (flags_of (TDT f (fst jt) (snd jt) ONone))) (snd (flags_of (TDT f (fst jt) (snd jt) ONone)))
                 ig df cy loc n0 n1)
        (render (TDT f (fst jt) (snd jt) ONone) d o)
  = OutOk (expected_dt (TDT f (fst jt) (snd jt) ONone) d df) ZNaive 0 false [].
Proof. exact parse_render_flag_dates_lemma. Qed.
Print Assumptions C02_parse_render_flag_dates.

(* (compact forms followed by numeric offsets, Z/UTC/GMT after other date forms, 12-hour clock after other date
   forms, fractions after other date forms, time-only forms with zones ...: coq/props/C02x.v) *)

(* F-C02-padyear: inside the complement of the guard the round trip fails on the faithful model
   ("25 Sep 0099" and "Sat Sep 25 10:36:28 0099" are read as 1999) *)
Theorem C02_padyear_refuted :
  valid_dt pad_dt = true /\
  parse pad_opts (render (TDT DDMonY JNone TNone ONone) pad_dt (mkOff true 0 0))
    = OutOk (mkDt 1999 9 25 0 0 0 0) ZNaive 0 false [] /\
  expected_dt (TDT DDMonY JNone TNone ONone) pad_dt (o_default pad_opts) = mkDt 99 9 25 0 0 0 0 /\
  parse pad_opts (render TCtime pad_dt (mkOff true 0 0))
    = OutOk (mkDt 1999 9 25 10 36 28 0) ZNaive 0 false [] /\
  expected_dt TCtime pad_dt (o_default pad_opts) = mkDt 99 9 25 10 36 28 0.
Proof. exact padyear_refuted_lemma. Qed.
Print Assumptions C02_padyear_refuted.

(* F-C02-tzlocal-range: tz.tzlocal can fail (parse/Local.v).  Every parse_render statement above is about
   `parse`, the runs in which tzlocal.tzname() answers; parse_lz is the model with the failure.
   transfer: any statement parse o s = OutOk d ... holds of parse_lz when tzlocal answers at d (guard), and
   without a guard when the text does not resolve to the local zone (all theorems above: their zone is never
   ZLocal, for every value of the oracle bit); inside the complement of the guard parse raises OverflowError *)
From V Require Import parse.ZoneThm parse.Local.

Theorem C02_tzlocal_transfer : forall o lz s d z f w toks,
  parse o s = OutOk d z f w toks -> tzlocal_raises lz d = false -> parse_lz o lz s = OutOk d z f w toks.
Proof. exact parse_lz_transfer. Qed.
Print Assumptions C02_tzlocal_transfer.

Theorem C02_tzlocal_not_local : forall o lz s d z f w toks,
  parse (set_nm0 o true) s = OutOk d z f w toks -> z <> ZLocal -> parse_lz o lz s = parse o s.
Proof. exact parse_lz_not_local. Qed.
Print Assumptions C02_tzlocal_not_local.

Theorem C02_tzlocal_local_raises : forall o lz s d f w toks,
  parse (set_nm0 o true) s = OutOk d ZLocal f w toks -> tzlocal_raises lz d = true -> parse_lz o lz s = OutOverflow.
Proof. exact parse_lz_local_raises. Qed.
Print Assumptions C02_tzlocal_local_raises.

(* "0001-01-01 00:03:00 GMT" under TZ=GMT0BST (time.tzname = GMT, BST; dst_saved = 3600 s; winter) *)
Theorem C02_tzlocal_range_refuted :
  valid_dt lzr_dt = true /\
  render (TDT DIso JSpace THMS OGMT) lzr_dt (mkOff true 0 0)
    = [48; 48; 48; 49; 45; 48; 49; 45; 48; 49; 32; 48; 48; 58; 48; 51; 58; 48; 48; 32; 71; 77; 84] /\
  parse lzr_opts (render (TDT DIso JSpace THMS OGMT) lzr_dt (mkOff true 0 0)) = OutOk lzr_dt ZLocal 0 false [] /\
  tzlocal_raises lzr_zone lzr_dt = true /\
  parse_lz lzr_opts lzr_zone (render (TDT DIso JSpace THMS OGMT) lzr_dt (mkOff true 0 0)) = OutOverflow.
Proof. exact tzlocal_range_refuted_lemma. Qed.
Print Assumptions C02_tzlocal_range_refuted.

(* a proved template family WITH a local zone name: YYYY-MM-DD{T, space}HH:MM[:SS] UTC / GMT where that name
   is one of time.tzname.  On `parse` (tzname() answers) the result carries the local zone (UTC when the zone
   does not report the name at that wall time); on parse_lz the round trip holds exactly under the guard *)
From V Require Import parse.RenderLocal.

Theorem C02_parse_render_iso_local_lz : forall j tf ofm d o df cy loc n0 n1 yf ig lz,
  In j plain_joiners -> In tf [THM; THMS] -> In ofm [OUTC; OGMT] ->
  valid_dt d = true -> valid_dt df = true ->
  smem (local_name ofm) loc = true ->
  parse_lz (opts_df0 yf ig df cy loc n0 n1) lz (render (TDT DIso j tf ofm) d o)
  = if negb ig && tzlocal_raises lz (expected_dt (TDT DIso j tf ofm) d df) then OutOverflow
    else OutOk (expected_dt (TDT DIso j tf ofm) d df) (fst (local_zone_res ig n0 n1)) (snd (local_zone_res ig n0 n1)) false [].
Proof. exact parse_lz_render_iso_local_lemma. Qed.
Print Assumptions C02_parse_render_iso_local_lz.

(* ------------------------------------------------------------------------------------------------
   Model <-> source (iso builder, notes/parse_gen.md).  coq/gen/ParseGen.v is regenerated from
   /repo/src/dateutil/parser/_parser.py by the fail-closed translator harness/gen_parse.py on every run; each
   translated function equals the corresponding function of the hand model for all inputs (parse/ParseGenThm*.v;
   statements in parse/ParseGenProps.v).  The untranslated parts of _parser.py are pinned by AST hash in the translator:
   any edit of them, or a translated function whose meaning changes, makes these theorems fail. *)
From V Require Import parse.ParseGenLib gen.ParseGen parse.ParseGenThm parse.ParseGenThm2 parse.ParseGenProps.

Theorem C02_gen_parserinfo_lookups : gen_parserinfo_lookups_stmt.
Proof. exact gen_parserinfo_lookups. Qed.
Print Assumptions C02_gen_parserinfo_lookups.

Theorem C02_gen_convertyear : gen_convertyear_stmt.
Proof. exact pg_convertyear_eq. Qed.
Print Assumptions C02_gen_convertyear.

Theorem C02_gen_validate : gen_validate_stmt.
Proof. exact pg_validate_eq. Qed.
Print Assumptions C02_gen_validate.

Theorem C02_gen_could_be_day : gen_could_be_day_stmt.
Proof. exact pg_could_be_day_eq. Qed.
Print Assumptions C02_gen_could_be_day.

Theorem C02_gen_resolve_ymd : gen_resolve_ymd_stmt.
Proof. exact pg_resolve_ymd_eq. Qed.
Print Assumptions C02_gen_resolve_ymd.

Theorem C02_gen_append : gen_append_stmt.
Proof. exact gen_append. Qed.
Print Assumptions C02_gen_append.

Theorem C02_gen_ampm : gen_ampm_stmt.
Proof. exact gen_ampm. Qed.
Print Assumptions C02_gen_ampm.

Theorem C02_gen_could_be_tzname : gen_could_be_tzname_stmt.
Proof. exact pg_could_be_tzname_eq. Qed.
Print Assumptions C02_gen_could_be_tzname.

Theorem C02_gen_parse_min_sec : gen_parse_min_sec_stmt.
Proof. exact pg_parse_min_sec_eq. Qed.
Print Assumptions C02_gen_parse_min_sec.

Theorem C02_gen_parsems : gen_parsems_stmt.
Proof. exact pg_parsems_eq. Qed.
Print Assumptions C02_gen_parsems.

Theorem C02_gen_assign_hms : gen_assign_hms_stmt.
Proof. exact pg_assign_hms_eq. Qed.
Print Assumptions C02_gen_assign_hms.

Theorem C02_gen_find_hms_idx : gen_find_hms_idx_stmt.
Proof. exact pg_find_hms_idx_eq. Qed.
Print Assumptions C02_gen_find_hms_idx.

Theorem C02_gen_parse_hms : gen_parse_hms_stmt.
Proof. exact pg_parse_hms_eq. Qed.
Print Assumptions C02_gen_parse_hms.

Theorem C02_gen_parse_numeric_token : gen_parse_numeric_stmt.
Proof. exact pg_parse_numeric_eq. Qed.
Print Assumptions C02_gen_parse_numeric_token.
