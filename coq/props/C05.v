(* C05 -- wall times are normal / ambiguous / imaginary per PEP 495.
   Statements only; proofs are in coq/tzfile/*Thm.v.  preimages z w = { u | u + off z u = w }
   (TzSpec, characterised by C05_preimages_meaning). *)
From Coq Require Import ZArith List Bool.
From V Require Import tzfile.TzModel tzfile.TzSpec tzfile.TzData tzfile.TzFixedThm tzfile.TzWallThm
  tzfile.TzFinalThm tzfile.TzResolveThm.
Import ListNotations.
Open Scope Z_scope.

Theorem C05_preimages_meaning : forall z w u, In u (preimages z w) <-> local z u = w.
Proof. exact pre_in. Qed.
Print Assumptions C05_preimages_meaning.

Theorem C05_preimages_le_2 : forall z w, wf_zone z = true -> (length (preimages z w) <= 2)%nat.
Proof. exact preimages_le_2_lemma. Qed.
Print Assumptions C05_preimages_le_2.

Theorem C05_exists_iff : forall d, good d = true -> wf_zone (zone_of d) = true -> forall w f,
  datetime_exists d w f = Ok (match preimages (zone_of d) w with [] => false | _ :: _ => true end).
Proof. exact exists_iff_lemma. Qed.
Print Assumptions C05_exists_iff.

Theorem C05_ambiguous_iff : forall d, good d = true -> wf_zone (zone_of d) = true -> forall w,
  datetime_ambiguous d w = Ok (length (preimages (zone_of d) w) =? 2)%nat.
Proof. exact ambiguous_iff_lemma. Qed.
Print Assumptions C05_ambiguous_iff.

(* (w, fold) denotes the earlier pre-image for fold = 0 and the later for fold = 1 (the only
   one when there is one: utc_of_spec is min / max of the pre-images) *)
Theorem C05_fold_selects : forall d, good d = true -> wf_zone (zone_of d) = true -> forall w f u,
  utc_of_spec (zone_of d) w f = Some u -> to_utc d w f = Ok u.
Proof. exact fold_selects_lemma. Qed.
Print Assumptions C05_fold_selects.

Theorem C05_fromutc_sets_fold_on_later : forall d, good d = true -> wf_zone (zone_of d) = true -> forall a b,
  a < b -> local (zone_of d) a = local (zone_of d) b ->
  exists w, fromutc d a = Ok (w, false) /\ fromutc d b = Ok (w, true).
Proof. exact fold_marks_later_lemma. Qed.
Print Assumptions C05_fromutc_sets_fold_on_later.

Theorem C05_fold_irrelevant_when_unique : forall d, good d = true -> wf_zone (zone_of d) = true -> forall w u,
  preimages (zone_of d) w = [u] -> to_utc d w false = Ok u /\ to_utc d w true = Ok u.
Proof. exact fold_irrelevant_lemma. Qed.
Print Assumptions C05_fold_irrelevant_when_unique.

Theorem C05_resolve_imaginary_id_when_exists : forall d, good d = true ->
  wf_zone (zone_of d) = true -> forall w f, preimages (zone_of d) w <> [] -> resolve_imaginary d w f = Ok (w, f).
Proof. exact resolve_id_lemma. Qed.
Print Assumptions C05_resolve_imaginary_id_when_exists.

(* imaginary w: moved forward by exactly the (positive) width of its gap, onto an existing wall
   time -- no hypothesis on the spacing of the transitions (resolve_imaginary after fix 7f58098
   measures the gap by a trip through UTC) *)
Theorem C05_resolve_imaginary_gap_width : forall d, good d = true -> wf_zone (zone_of d) = true -> forall w f,
  preimages (zone_of d) w = [] ->
  exists g, 0 < g /\ gap_width (zone_of d) w = Some g /\ resolve_imaginary d w f = Ok (w + g, false) /\
            resolve_spec (zone_of d) w = w + g /\ preimages (zone_of d) (w + g) <> [].
Proof. exact resolve_gap_full_lemma. Qed.
Print Assumptions C05_resolve_imaginary_gap_width.

(* the guard wf_zone is needed and its complement is an OPEN finding (F-C05-short-regime, audit A1): a
   30-minute daylight regime; every probed wall time has <= 2 pre-images, yet a wall time with ONE
   pre-image is called ambiguous, read with the old offset for fold = 0 and reported non-existing *)
From V Require Import tzfile.TzRefuted.
Theorem C05_short_regime_refuted : exists d w,
  good d = true /\ wf_zone (zone_of d) = false /\
  length (preimages (zone_of d) w) = 1%nat /\
  (forall x, In x [w - 3600; w; w + 1600; w + 3400] -> (length (preimages (zone_of d) x) <= 2)%nat) /\
  datetime_ambiguous d w = Ok true /\ datetime_exists d w false = Ok false /\
  utcoffset d w false = Ok 3600 /\ fromutc d w = Ok (w, true).
Proof. exact short_regime_refuted_lemma. Qed.
Print Assumptions C05_short_regime_refuted.

Theorem C05_fixed_classify : forall o w f,
  fixed_exists o w f = true /\ fixed_is_ambiguous o w = false /\
  length (preimages (fixed_zone o) w) = 1%nat.
Proof. exact fixed_classify_lemma. Qed.
Print Assumptions C05_fixed_classify.
From V Require Import tzfile.TzGenLib gen.TzGen tzfile.TzGenThm tzfile.TzGenericModel tzfile.TzBeforeThm.

(* ---- regenerated model = hand model (coq/gen/TzGen.v is re-translated from /repo on every run) ---- *)
Theorem C05_gen_find_last_transition : forall d dt b, gen_find_last_transition d dt b = find_last d (fst dt) b.
Proof. exact gen_find_last_transition_lemma. Qed.
Print Assumptions C05_gen_find_last_transition.

Theorem C05_gen_get_ttinfo : forall d idx, shape d -> gen_get_ttinfo d idx = Ok (get_ttinfo d idx).
Proof. exact gen_get_ttinfo_lemma. Qed.
Print Assumptions C05_gen_get_ttinfo.

Theorem C05_gen_is_ambiguous : forall d dt idx, shape d -> (forall i, idx = Some i -> i < len (d_wall d)) ->
  gen_is_ambiguous d dt idx = is_ambiguous d (fst dt) idx.
Proof. exact gen_is_ambiguous_lemma. Qed.
Print Assumptions C05_gen_is_ambiguous.

Theorem C05_gen_resolve_ambiguous_time : forall d dt, shape d ->
  gen_resolve_ambiguous_time d dt = resolve_idx d (fst dt) (snd dt).
Proof. exact gen_resolve_ambiguous_time_lemma. Qed.
Print Assumptions C05_gen_resolve_ambiguous_time.

Theorem C05_gen_find_ttinfo : forall d dt, shape d -> gen_find_ttinfo d dt = find_ttinfo d (fst dt) (snd dt).
Proof. exact gen_find_ttinfo_lemma. Qed.
Print Assumptions C05_gen_find_ttinfo.

Theorem C05_gen_fromutc : forall d dt, shape d -> gen_fromutc d dt = fromutc d (fst dt).
Proof. exact gen_fromutc_lemma. Qed.
Print Assumptions C05_gen_fromutc.

Theorem C05_gen_utcoffset : forall d dt, shape d -> gen_utcoffset d dt = utcoffset d (fst dt) (snd dt).
Proof. exact gen_utcoffset_lemma. Qed.
Print Assumptions C05_gen_utcoffset.

Theorem C05_gen_datetime_exists : forall d dt, shape d ->
  gen_datetime_exists (tzfile_obj d) dt = datetime_exists d (fst dt) (snd dt).
Proof. exact gen_datetime_exists_lemma. Qed.
Print Assumptions C05_gen_datetime_exists.

Theorem C05_gen_datetime_ambiguous : forall d dt, good d = true ->
  gen_datetime_ambiguous (tzfile_obj d) dt = datetime_ambiguous d (fst dt).
Proof. exact gen_datetime_ambiguous_lemma. Qed.
Print Assumptions C05_gen_datetime_ambiguous.

Theorem C05_gen_resolve_imaginary : forall d dt, shape d ->
  gen_resolve_imaginary (tzfile_obj d) dt = resolve_imaginary d (fst dt) (snd dt).
Proof. exact gen_resolve_imaginary_lemma. Qed.
Print Assumptions C05_gen_resolve_imaginary.

Theorem C05_gen_generic_is_ambiguous : forall (tz : tzobj) (UO : Z -> bool -> Z),
  (forall dt, tz_utcoffset tz dt = Ok (UO (fst dt) (snd dt))) ->
  forall dt, gen_generic_is_ambiguous tz dt = Ok (g_is_ambiguous UO (fst dt)).
Proof. exact gen_generic_is_ambiguous_lemma. Qed.
Print Assumptions C05_gen_generic_is_ambiguous.

(* tz.datetime_ambiguous on a zone whose own is_ambiguous is unusable: the fold-comparison fallback *)
Theorem C05_gen_datetime_ambiguous_fallback : forall (tz : tzobj) (UO DST : Z -> bool -> Z),
  (forall dt, tz_utcoffset tz dt = Ok (UO (fst dt) (snd dt))) ->
  (forall dt, tz_dst tz dt = Ok (DST (fst dt) (snd dt))) ->
  forall dt, (exists e, tz_is_ambiguous tz dt = Err e) ->
  gen_datetime_ambiguous tz dt = Ok (g_ambiguous_fallback UO DST (fst dt)).
Proof. exact gen_datetime_ambiguous_fallback_lemma. Qed.
Print Assumptions C05_gen_datetime_ambiguous_fallback.

From V Require Import tzfile.TzGenLoopThm tzfile.TzDecodeThm.

(* ---- round 4: the derivation loops of _read_tzfile, regenerated from the source ---- *)
Theorem C05_gen_scan_std_dst : forall types idx,
  gen_scan types idx (len idx) =
  Ok (let sd := scan_sd types (rev idx) None None in
      (match fst sd with None => snd sd | Some k => Some k end, snd sd)).
Proof. exact gen_scan_lemma. Qed.
Print Assumptions C05_gen_scan_std_dst.

Theorem C05_gen_wall_transition_loop : forall types utc idx kb ks heap0, length utc = length idx ->
  exists a b c,
    gen_wall_loop types utc idx (len idx) (Some kb) (Some ks) heap0 =
    Ok (a, b, c, wall_pass types (tt_off (nth_tt types ks)) utc idx (tt_off (nth_tt types kb)),
        dst_pass types idx None 0 0 heap0).
Proof. exact gen_wall_loop_lemma. Qed.
Print Assumptions C05_gen_wall_transition_loop.

(* the decoder of the hand model uses exactly the results of the regenerated loops *)
Theorem C05_gen_build_uses_regenerated_loops : forall r d, build r = Ok d -> r_types r <> [] -> r_times r <> [] ->
  length (r_idx r) = length (r_times r) ->
  let types0 := mk_types (r_abbr r) (r_isstd r) (r_isgmt r) O (r_types r) in
  exists ks kdo a b c ds,
    gen_scan types0 (r_idx r) (len (r_idx r)) = Ok (Some ks, kdo) /\
    gen_wall_loop types0 (r_times r) (r_idx r) (len (r_idx r)) (Some (gen_ttinfo_before_index types0)) (Some ks)
                  (map (fun _ => 0) types0) = Ok (a, b, c, d_wall d, ds) /\
    d_utc d = r_times r /\ d_idx d = r_idx r /\ d_tt d = set_dstoffs types0 ds /\
    d_std d = Some (nth_tt (d_tt d) ks) /\ d_dst d = opt_tt (d_tt d) kdo /\
    d_before d = Some (nth_tt (d_tt d) (gen_ttinfo_before_index types0)).
Proof. exact build_uses_gen_lemma. Qed.
Print Assumptions C05_gen_build_uses_regenerated_loops.

(* ---- C05 for the generic layer (iCalendar-style zones): the REGENERATED datetime_exists / datetime_ambiguous /
   resolve_imaginary on the zone object of a piecewise zone with constant standard offset (pw_obj: utcoffset/dst =
   PEP-495 wall lookups, fromutc = generic _tzinfo.fromutc, is_ambiguous = generic _tzinfo.is_ambiguous).
   Not covered by any theorem: tzlocal (own is_ambiguous), tzrange / tzstr (own fromutc/is_ambiguous; C08). ---- *)
From V Require Import tzfile.TzZoneThm tzfile.TzGenericInstThm tzfile.TzGenericGenThm.
Theorem C05_generic_ambiguous_iff_two_preimages : forall (so p : Z) (tr : list (Z * Z)),
  wf_zone (mkZone p tr) = true -> forall w,
  g_is_ambiguous (A_utcoffset p tr) w = true <-> length (preimages (mkZone p tr) w) = 2%nat.
Proof. exact ambiguous_obligation. Qed.
Print Assumptions C05_generic_ambiguous_iff_two_preimages.

Theorem C05_generic_datetime_exists : forall (so p : Z) (tr : list (Z * Z)),
  wf_zone (mkZone p tr) = true -> alt_from so p tr = true -> so <= p -> forall w f,
  gen_datetime_exists (pw_obj so p tr) (w, f) =
  Ok (match preimages (mkZone p tr) w with [] => false | _ :: _ => true end).
Proof. exact pw_datetime_exists_lemma. Qed.
Print Assumptions C05_generic_datetime_exists.

Theorem C05_generic_datetime_ambiguous : forall (so p : Z) (tr : list (Z * Z)),
  wf_zone (mkZone p tr) = true -> forall w f,
  gen_datetime_ambiguous (pw_obj so p tr) (w, f) = Ok (length (preimages (mkZone p tr) w) =? 2)%nat.
Proof. exact pw_datetime_ambiguous_lemma. Qed.
Print Assumptions C05_generic_datetime_ambiguous.

Theorem C05_generic_resolve_imaginary : forall (so p : Z) (tr : list (Z * Z)),
  wf_zone (mkZone p tr) = true -> alt_from so p tr = true -> so <= p -> forall w f,
  (preimages (mkZone p tr) w <> [] -> gen_resolve_imaginary (pw_obj so p tr) (w, f) = Ok (w, f)) /\
  (preimages (mkZone p tr) w = [] -> exists g, 0 < g /\ gap_width (mkZone p tr) w = Some g /\
     gen_resolve_imaginary (pw_obj so p tr) (w, f) = Ok (w + g, false) /\ preimages (mkZone p tr) (w + g) <> []).
Proof. exact pw_resolve_imaginary_lemma. Qed.
Print Assumptions C05_generic_resolve_imaginary.

(* hand-modelled fragments (struct decoding and the derivation loops of _read_tzfile, one-line methods, glue)
   are unchanged since the hand model was validated against them *)
From V Require Import tzfile.TzPinC05.
Theorem C05_pinned_fragments_unchanged :
  pinned_tz_tzfile__read_tzfile = true /\
  pinned_tz_tzutc_is_ambiguous = true /\
  pinned_tz_tzoffset_is_ambiguous = true /\
  pinned__common__tzinfo__fold = true.
Proof. exact pins_C05_lemma. Qed.
Print Assumptions C05_pinned_fragments_unchanged.
