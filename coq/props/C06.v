(* C06 -- tzfile reports exactly what the TZif data says at every instant.
   Statements only; proofs are in coq/tzfile/*Thm.v.  `raw` is the version-1 data block,
   render_tzif its byte rendering, parse_tzif / build / read_tzfile the decoder of the model;
   data_at r u is the (gmtoff, isdst, abbreviation) the raw data assigns to u, written on the raw
   block without the decoder's helpers (TzData).  Non-vacuity: tzfile/TzExamples.v.
   STATED SCOPE: the data theorems cover [first, last) and before the first transition; from the last transition
   on dateutil applies ttinfo_std by design (version-1 data; footer ignored). *)
From Coq Require Import ZArith List Bool.
From V Require Import tzfile.TzModel tzfile.TzSpec tzfile.TzData tzfile.TzBisect tzfile.TzRenderThm
  tzfile.TzDecodeThm tzfile.TzReportThm tzfile.TzParseThm tzfile.TzC06Thm tzfile.TzTotalThm tzfile.TzAnyThm tzfile.TzBeforeThm tzfile.TzEqThm.
Import ListNotations.
Open Scope Z_scope.

(* the decoder inverts the renderer, whatever follows the version-1 block *)
Theorem C06_read_render : forall r rest, wf_raw r = true -> parse_tzif (render_tzif r ++ rest) = Ok r.
Proof. exact parse_render_lemma. Qed.
Print Assumptions C06_read_render.

(* every decoded file (at least one type) has the invariant the C04/C05 theorems assume *)
Theorem C06_decoder_invariant : forall bytes r d, parse_tzif bytes = Ok r -> build r = Ok d ->
  r_types r <> [] -> good d = true.
Proof. exact read_good_lemma. Qed.
Print Assumptions C06_decoder_invariant.

(* decode o lookup: from the first to the last transition of the data the decoded zone reports the
   data's offset (also as wall reading), abbreviation, and a zero dst() on standard types *)
Theorem C06_tzfile_reports_data : forall r d u, build r = Ok d -> wf_data r = true ->
  wf_zone (zone_of d) = true -> in_data_range r u = true ->
  exists w f g isd ab, data_at r u = Some (g, isd, ab) /\ fromutc d u = Ok (w, f) /\ w = u + g /\
    dt_utcoffset d w f = Ok g /\ tzname d w f = Ok (Some ab) /\ (isd = 0 -> dst d w f = Ok 0).
Proof. exact reports_data_lemma. Qed.
Print Assumptions C06_tzfile_reports_data.

(* before the first transition: the data's first standard type (type 0 when all are DST) *)
Theorem C06_reports_first_standard_type_before_first_transition : forall r d u t0 ts, build r = Ok d ->
  wf_data r = true -> wf_zone (zone_of d) = true -> r_times r = t0 :: ts -> u < t0 ->
  exists w f g isd ab, data_at r u = Some (g, isd, ab) /\ fromutc d u = Ok (w, f) /\ w = u + g /\
    dt_utcoffset d w f = Ok g /\ tzname d w f = Ok (Some ab) /\ (isd = 0 -> dst d w f = Ok 0).
Proof. exact reports_before_lemma. Qed.
Print Assumptions C06_reports_first_standard_type_before_first_transition.

Theorem C06_bytes_report_data : forall r rest d u, wf_data r = true ->
  read_tzfile (render_tzif r ++ rest) = Ok d -> wf_zone (zone_of d) = true -> in_data_range r u = true ->
  exists w f g isd ab, data_at r u = Some (g, isd, ab) /\ fromutc d u = Ok (w, f) /\ w = u + g /\
    dt_utcoffset d w f = Ok g /\ tzname d w f = Ok (Some ab) /\ (isd = 0 -> dst d w f = Ok 0).
Proof. exact bytes_report_data_lemma. Qed.
Print Assumptions C06_bytes_report_data.

(* no success hypothesis: well-formed data is always read successfully (the IndexError /
   AttributeError constructors of the model are unreachable), the result has the decoder invariant
   and reports the data *)
Theorem C06_wellformed_data_is_read_and_reported : forall r rest, wf_data r = true ->
  exists d, read_tzfile (render_tzif r ++ rest) = Ok d /\ good d = true /\
    (wf_zone (zone_of d) = true -> forall u, in_data_range r u = true ->
     exists w f g isd ab, data_at r u = Some (g, isd, ab) /\ fromutc d u = Ok (w, f) /\ w = u + g /\
       dt_utcoffset d w f = Ok g /\ tzname d w f = Ok (Some ab) /\ (isd = 0 -> dst d w f = Ok 0)).
Proof. exact bytes_total_report_lemma. Qed.
Print Assumptions C06_wellformed_data_is_read_and_reported.

(* files outside wf_zone (e.g. offset changes larger than the spacing of the transitions, where a
   (wall, fold) pair cannot name every instant): the wall reading is still the instant plus the
   data's offset; only sorted transition times are needed *)
Theorem C06_wall_reading_any_spacing : forall r d u, build r = Ok d -> wf_data r = true ->
  sortedb (r_times r) = true -> in_data_range r u = true ->
  exists f g isd ab, data_at r u = Some (g, isd, ab) /\ fromutc d u = Ok (u + g, f).
Proof. exact reports_wall_any_lemma. Qed.
Print Assumptions C06_wall_reading_any_spacing.

(* tzfile.__eq__ (zone_eqb: _trans_list, the ttinfo of every transition, _ttinfo_list) determines
   every lookup: decoded zones that compare equal behave identically *)
Theorem C06_eq_zones_behave_same : forall r1 r2 d1 d2, build r1 = Ok d1 -> build r2 = Ok d2 ->
  r_types r1 <> [] -> r_types r2 <> [] ->
  length (r_idx r1) = length (r_times r1) -> length (r_idx r2) = length (r_times r2) ->
  zone_eqb d1 d2 = true ->
  forall x f, fromutc d1 x = fromutc d2 x /\ utcoffset d1 x f = utcoffset d2 x f /\ dst d1 x f = dst d2 x f /\
    tzname d1 x f = tzname d2 x f /\ datetime_exists d1 x f = datetime_exists d2 x f /\
    datetime_ambiguous d1 x = datetime_ambiguous d2 x /\ resolve_imaginary d1 x f = resolve_imaginary d2 x f.
Proof. exact eq_zones_behave_same_lemma. Qed.
Print Assumptions C06_eq_zones_behave_same.

(* the model's binary search (CPython's bisect_right) on a sorted list counts the elements <= x *)
Theorem C06_bisect_right_sorted : forall l x, sortedb l = true -> bisect_right l x = Some (count_le l x).
Proof. exact bisect_right_sorted. Qed.
Print Assumptions C06_bisect_right_sorted.
From V Require Import tzfile.TzGenLib gen.TzGen tzfile.TzGenThm tzfile.TzGenericModel tzfile.TzBeforeThm.

(* ---- regenerated model = hand model (coq/gen/TzGen.v is re-translated from /repo on every run) ---- *)
Theorem C06_gen_find_last_transition : forall d dt b, gen_find_last_transition d dt b = find_last d (fst dt) b.
Proof. exact gen_find_last_transition_lemma. Qed.
Print Assumptions C06_gen_find_last_transition.

Theorem C06_gen_get_ttinfo : forall d idx, shape d -> gen_get_ttinfo d idx = Ok (get_ttinfo d idx).
Proof. exact gen_get_ttinfo_lemma. Qed.
Print Assumptions C06_gen_get_ttinfo.

Theorem C06_gen_is_ambiguous : forall d dt idx, shape d -> (forall i, idx = Some i -> i < len (d_wall d)) ->
  gen_is_ambiguous d dt idx = is_ambiguous d (fst dt) idx.
Proof. exact gen_is_ambiguous_lemma. Qed.
Print Assumptions C06_gen_is_ambiguous.

Theorem C06_gen_resolve_ambiguous_time : forall d dt, shape d ->
  gen_resolve_ambiguous_time d dt = resolve_idx d (fst dt) (snd dt).
Proof. exact gen_resolve_ambiguous_time_lemma. Qed.
Print Assumptions C06_gen_resolve_ambiguous_time.

Theorem C06_gen_find_ttinfo : forall d dt, shape d -> gen_find_ttinfo d dt = find_ttinfo d (fst dt) (snd dt).
Proof. exact gen_find_ttinfo_lemma. Qed.
Print Assumptions C06_gen_find_ttinfo.

Theorem C06_gen_fromutc : forall d dt, shape d -> gen_fromutc d dt = fromutc d (fst dt).
Proof. exact gen_fromutc_lemma. Qed.
Print Assumptions C06_gen_fromutc.

Theorem C06_gen_utcoffset : forall d dt, shape d -> gen_utcoffset d dt = utcoffset d (fst dt) (snd dt).
Proof. exact gen_utcoffset_lemma. Qed.
Print Assumptions C06_gen_utcoffset.

Theorem C06_gen_dst : forall d dt, shape d -> gen_dst d dt = dst d (fst dt) (snd dt).
Proof. exact gen_dst_lemma. Qed.
Print Assumptions C06_gen_dst.

Theorem C06_gen_tzname : forall d dt, shape d -> gen_tzname d dt = tzname d (fst dt) (snd dt).
Proof. exact gen_tzname_lemma. Qed.
Print Assumptions C06_gen_tzname.

Theorem C06_gen_datetime_to_timestamp : forall dt, gen_datetime_to_timestamp dt = fst dt.
Proof. exact gen_datetime_to_timestamp_lemma. Qed.
Print Assumptions C06_gen_datetime_to_timestamp.

Theorem C06_gen_shape_of_decoded : forall d, good d = true -> shape d.
Proof. exact good_shape. Qed.
Print Assumptions C06_gen_shape_of_decoded.

Theorem C06_gen_ttinfo_before : forall types, gen_ttinfo_before_index types = before_index types.
Proof. exact gen_ttinfo_before_lemma. Qed.
Print Assumptions C06_gen_ttinfo_before.

(* ... and build uses exactly that index for _ttinfo_before *)
Theorem C06_gen_ttinfo_before_is_used : forall r d, build r = Ok d -> r_types r <> [] -> r_times r <> [] ->
  d_before d = Some (nth_tt (d_tt d) (gen_ttinfo_before_index (mk_types (r_abbr r) (r_isstd r) (r_isgmt r) O (r_types r)))).
Proof. exact build_before. Qed.
Print Assumptions C06_gen_ttinfo_before_is_used.

From V Require Import tzfile.TzGenLoopThm tzfile.TzDecodeThm.

(* ---- round 4: the derivation loops of _read_tzfile, regenerated from the source ---- *)
Theorem C06_gen_scan_std_dst : forall types idx,
  gen_scan types idx (len idx) =
  Ok (let sd := scan_sd types (rev idx) None None in
      (match fst sd with None => snd sd | Some k => Some k end, snd sd)).
Proof. exact gen_scan_lemma. Qed.
Print Assumptions C06_gen_scan_std_dst.

Theorem C06_gen_wall_transition_loop : forall types utc idx kb ks heap0, length utc = length idx ->
  exists a b c,
    gen_wall_loop types utc idx (len idx) (Some kb) (Some ks) heap0 =
    Ok (a, b, c, wall_pass types (tt_off (nth_tt types ks)) utc idx (tt_off (nth_tt types kb)),
        dst_pass types idx None 0 0 heap0).
Proof. exact gen_wall_loop_lemma. Qed.
Print Assumptions C06_gen_wall_transition_loop.

(* the decoder of the hand model uses exactly the results of the regenerated loops *)
Theorem C06_gen_build_uses_regenerated_loops : forall r d, build r = Ok d -> r_types r <> [] -> r_times r <> [] ->
  length (r_idx r) = length (r_times r) ->
  let types0 := mk_types (r_abbr r) (r_isstd r) (r_isgmt r) O (r_types r) in
  exists ks kdo a b c ds,
    gen_scan types0 (r_idx r) (len (r_idx r)) = Ok (Some ks, kdo) /\
    gen_wall_loop types0 (r_times r) (r_idx r) (len (r_idx r)) (Some (gen_ttinfo_before_index types0)) (Some ks)
                  (map (fun _ => 0) types0) = Ok (a, b, c, d_wall d, ds) /\
    d_utc d = r_times r /\ d_idx d = r_idx r /\ d_tt d = set_dstoffs types0 ds /\
    d_std d = Some (nth_tt (d_tt d) ks) /\ d_dst d = opt_tt (d_tt d) kdo /\
    d_before d = Some (nth_tt (d_tt d) (gen_ttinfo_before_index types0)).
Proof. exact build_uses_gen_lemma. Qed.
Print Assumptions C06_gen_build_uses_regenerated_loops.

(* ---- round 4: the regenerated __eq__ layer ---- *)
Theorem C06_gen_ttinfo_eq : forall a b, gen_ttinfo_eq a b = tt_eqb a b.
Proof. exact gen_ttinfo_eq_lemma. Qed.
Print Assumptions C06_gen_ttinfo_eq.

Theorem C06_gen_tzfile_eq : forall d1 d2, gen_tzfile_eq d1 d2 = zone_eqb d1 d2.
Proof. exact gen_tzfile_eq_lemma. Qed.
Print Assumptions C06_gen_tzfile_eq.

Theorem C06_gen_tzfile_ne : forall d1 d2, gen_tzfile_ne d1 d2 = negb (zone_eqb d1 d2).
Proof. exact gen_tzfile_ne_lemma. Qed.
Print Assumptions C06_gen_tzfile_ne.

(* C06_eq_zones_behave_same stated with the REGENERATED tzfile.__eq__ *)
Theorem C06_gen_eq_zones_behave_same : forall r1 r2 d1 d2, build r1 = Ok d1 -> build r2 = Ok d2 ->
  r_types r1 <> [] -> r_types r2 <> [] ->
  length (r_idx r1) = length (r_times r1) -> length (r_idx r2) = length (r_times r2) ->
  gen_tzfile_eq d1 d2 = true ->
  forall x f, fromutc d1 x = fromutc d2 x /\ utcoffset d1 x f = utcoffset d2 x f /\ dst d1 x f = dst d2 x f /\
    tzname d1 x f = tzname d2 x f /\ datetime_exists d1 x f = datetime_exists d2 x f /\
    datetime_ambiguous d1 x = datetime_ambiguous d2 x /\ resolve_imaginary d1 x f = resolve_imaginary d2 x f.
Proof. exact gen_eq_behave_same_lemma. Qed.
Print Assumptions C06_gen_eq_zones_behave_same.

(* hand-modelled fragments (struct decoding and the derivation loops of _read_tzfile, one-line methods, glue)
   are unchanged since the hand model was validated against them *)
From V Require Import tzfile.TzPinC06.
Theorem C06_pinned_fragments_unchanged :
  pinned_tz_tzfile__read_tzfile = true /\
  pinned_tz_tzfile___init__ = true /\
  pinned_tz_tzfile__set_tzdata = true /\
  pinned_tz_tzfile___reduce_ex__ = true /\
  pinned_zoneinfo_ZoneInfoFile___init__ = true /\
  pinned_zoneinfo_ZoneInfoFile_get = true /\
  pinned_zoneinfo_tzfile___reduce__ = true.
Proof. exact pins_C06_lemma. Qed.
Print Assumptions C06_pinned_fragments_unchanged.
