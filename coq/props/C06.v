(* C06 -- tzfile reports exactly what the TZif data says at every instant.
   Statements only; proofs are in coq/tzfile/*Thm.v. *)
From Coq Require Import ZArith List Bool.
From V Require Import tzfile.TzModel tzfile.TzSpec tzfile.TzData tzfile.TzFixedThm.
Open Scope Z_scope.

Theorem C06_placeholder_fixed_off : forall o u, off (fixed_zone o) u = o.
Proof. exact fixed_off. Qed.
Print Assumptions C06_placeholder_fixed_off.
