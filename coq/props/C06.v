(* C06 -- tzfile reports exactly what the TZif data says at every instant.
   Statements only; proofs are in coq/tzfile/*Thm.v.  `raw` is the version-1 data block,
   render_tzif its byte rendering, parse_tzif / build / read_tzfile the decoder of the model;
   data_at r u is the (gmtoff, isdst, abbreviation) the raw data assigns to u, written on the raw
   block without the decoder's helpers (TzData).  Non-vacuity: tzfile/TzExamples.v. *)
From Coq Require Import ZArith List Bool.
From V Require Import tzfile.TzModel tzfile.TzSpec tzfile.TzData tzfile.TzBisect tzfile.TzRenderThm
  tzfile.TzDecodeThm tzfile.TzReportThm tzfile.TzParseThm tzfile.TzC06Thm tzfile.TzTotalThm tzfile.TzAnyThm tzfile.TzBeforeThm tzfile.TzEqThm.
Import ListNotations.
Open Scope Z_scope.

(* the decoder inverts the renderer, whatever follows the version-1 block *)
Theorem C06_read_render : forall r rest, wf_raw r = true -> parse_tzif (render_tzif r ++ rest) = Ok r.
Proof. exact parse_render_lemma. Qed.
Print Assumptions C06_read_render.

(* every decoded file (at least one type) has the invariant the C04/C05 theorems assume *)
Theorem C06_decoder_invariant : forall bytes r d, parse_tzif bytes = Ok r -> build r = Ok d ->
  r_types r <> [] -> good d = true.
Proof. exact read_good_lemma. Qed.
Print Assumptions C06_decoder_invariant.

(* decode o lookup: from the first to the last transition of the data the decoded zone reports the
   data's offset (also as wall reading), abbreviation, and a zero dst() on standard types *)
Theorem C06_tzfile_reports_data : forall r d u, build r = Ok d -> wf_data r = true ->
  wf_zone (zone_of d) = true -> in_data_range r u = true ->
  exists w f g isd ab, data_at r u = Some (g, isd, ab) /\ fromutc d u = Ok (w, f) /\ w = u + g /\
    dt_utcoffset d w f = Ok g /\ tzname d w f = Ok (Some ab) /\ (isd = 0 -> dst d w f = Ok 0).
Proof. exact reports_data_lemma. Qed.
Print Assumptions C06_tzfile_reports_data.

(* before the first transition: the data's first standard type (type 0 when all are DST) *)
Theorem C06_reports_first_standard_type_before_first_transition : forall r d u t0 ts, build r = Ok d ->
  wf_data r = true -> wf_zone (zone_of d) = true -> r_times r = t0 :: ts -> u < t0 ->
  exists w f g isd ab, data_at r u = Some (g, isd, ab) /\ fromutc d u = Ok (w, f) /\ w = u + g /\
    dt_utcoffset d w f = Ok g /\ tzname d w f = Ok (Some ab) /\ (isd = 0 -> dst d w f = Ok 0).
Proof. exact reports_before_lemma. Qed.
Print Assumptions C06_reports_first_standard_type_before_first_transition.

Theorem C06_bytes_report_data : forall r rest d u, wf_data r = true ->
  read_tzfile (render_tzif r ++ rest) = Ok d -> wf_zone (zone_of d) = true -> in_data_range r u = true ->
  exists w f g isd ab, data_at r u = Some (g, isd, ab) /\ fromutc d u = Ok (w, f) /\ w = u + g /\
    dt_utcoffset d w f = Ok g /\ tzname d w f = Ok (Some ab) /\ (isd = 0 -> dst d w f = Ok 0).
Proof. exact bytes_report_data_lemma. Qed.
Print Assumptions C06_bytes_report_data.

(* no success hypothesis: well-formed data is always read successfully (the IndexError /
   AttributeError constructors of the model are unreachable), the result has the decoder invariant
   and reports the data *)
Theorem C06_wellformed_data_is_read_and_reported : forall r rest, wf_data r = true ->
  exists d, read_tzfile (render_tzif r ++ rest) = Ok d /\ good d = true /\
    (wf_zone (zone_of d) = true -> forall u, in_data_range r u = true ->
     exists w f g isd ab, data_at r u = Some (g, isd, ab) /\ fromutc d u = Ok (w, f) /\ w = u + g /\
       dt_utcoffset d w f = Ok g /\ tzname d w f = Ok (Some ab) /\ (isd = 0 -> dst d w f = Ok 0)).
Proof. exact bytes_total_report_lemma. Qed.
Print Assumptions C06_wellformed_data_is_read_and_reported.

(* files outside wf_zone (e.g. offset changes larger than the spacing of the transitions, where a
   (wall, fold) pair cannot name every instant): the wall reading is still the instant plus the
   data's offset; only sorted transition times are needed *)
Theorem C06_wall_reading_any_spacing : forall r d u, build r = Ok d -> wf_data r = true ->
  sortedb (r_times r) = true -> in_data_range r u = true ->
  exists f g isd ab, data_at r u = Some (g, isd, ab) /\ fromutc d u = Ok (u + g, f).
Proof. exact reports_wall_any_lemma. Qed.
Print Assumptions C06_wall_reading_any_spacing.

(* tzfile.__eq__ (zone_eqb: _trans_list, the ttinfo of every transition, _ttinfo_list) determines
   every lookup: decoded zones that compare equal behave identically *)
Theorem C06_eq_zones_behave_same : forall r1 r2 d1 d2, build r1 = Ok d1 -> build r2 = Ok d2 ->
  r_types r1 <> [] -> r_types r2 <> [] ->
  length (r_idx r1) = length (r_times r1) -> length (r_idx r2) = length (r_times r2) ->
  zone_eqb d1 d2 = true ->
  forall x f, fromutc d1 x = fromutc d2 x /\ utcoffset d1 x f = utcoffset d2 x f /\ dst d1 x f = dst d2 x f /\
    tzname d1 x f = tzname d2 x f /\ datetime_exists d1 x f = datetime_exists d2 x f /\
    datetime_ambiguous d1 x = datetime_ambiguous d2 x /\ resolve_imaginary d1 x f = resolve_imaginary d2 x f.
Proof. exact eq_zones_behave_same_lemma. Qed.
Print Assumptions C06_eq_zones_behave_same.

(* the model's binary search (CPython's bisect_right) on a sorted list counts the elements <= x *)
Theorem C06_bisect_right_sorted : forall l x, sortedb l = true -> bisect_right l x = Some (count_le l x).
Proof. exact bisect_right_sorted. Qed.
Print Assumptions C06_bisect_right_sorted.
