(* C07 -- isoparse inverts every ISO-8601 rendering.
   Statements only; proofs are in iso/IsoThm*.v over the hand-written model iso/IsoModel.v
   (tied to /repo/src/dateutil/parser/isoparser.py by harness/check_C07.py). *)
From Coq Require Import ZArith List Bool.
From V Require Import base.Cal iso.IsoBase iso.IsoModel iso.IsoSpec iso.IsoThm.
Import ListNotations.
Open Scope Z_scope.

(* offset-only entry point: Z / z / +-HH / +-HHMM / +-HH:MM, zero offset is UTC *)
Theorem C07_parse_tzstr_render : forall o,
  o <> ONone -> wf_off o = true -> parse_tzstr (render_off o) true = Ok (tz_of o).
Proof. exact parse_tzstr_render_lemma. Qed.
Print Assumptions C07_parse_tzstr_render.
