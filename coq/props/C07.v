(* C07 -- isoparse inverts every ISO-8601 rendering.
   Statements only; proofs are in iso/IsoThm*.v over the hand-written model iso/IsoModel.v
   (tied to /repo/src/dateutil/parser/isoparser.py by harness/check_C07.py).
   render_iso / render_date / render_time / render_off, wf_fmt, expected, trunc_* are the
   specification of iso/IsoSpec.v (Part B). *)
From Coq Require Import ZArith List Bool.
From V Require Import base.Cal iso.IsoBase iso.IsoModel iso.IsoSpec iso.IsoThm iso.IsoThmTz iso.IsoThmTime
                      iso.IsoThmWeek iso.IsoThmMain iso.IsoThmRender.
Import ListNotations.
Open Scope Z_scope.

(* the inverse law: every date form x time form x fraction digits (any number >= 1, dot or comma)
   x separator byte (configured or not) x offset form, every datetime 0001-01-01 .. 9999-12-31:
   parsing the rendering returns the datetime truncated to the rendered precision, offset zero
   as UTC *)
Theorem C07_isoparse_render : forall f sep o dt,
  wf_fmt f sep o = true -> valid_dt dt = true ->
  isoparse sep (render_iso f dt o) = Ok (expected f dt o).
Proof. exact isoparse_render. Qed.
Print Assumptions C07_isoparse_render.

(* 24:00 (all other time fields zero) is 00:00 of the following day; after 9999-12-31 it is a
   ValueError (expected_2400 = None) *)
Theorem C07_isoparse_2400 : forall f sep o y m d,
  wf_fmt_2400 f sep o = true -> valid_ymd y m d = true ->
  isoparse sep (render_iso_2400 f (y, m, d) o) = lift (expected_2400 (y, m, d) o).
Proof. exact isoparse_2400. Qed.
Print Assumptions C07_isoparse_2400.

(* date-only entry point, all ten date forms *)
Theorem C07_parse_isodate_render : forall f y m d, valid_ymd y m d = true ->
  parse_isodate (render_date f y m d) = Ok (trunc_date f y m d).
Proof. exact parse_isodate_render. Qed.
Print Assumptions C07_parse_isodate_render.

(* time-only entry point, all seven time forms with any offset form *)
Theorem C07_parse_isotime_render : forall ts h mi s us o,
  wf_tspec ts = true -> wf_off o = true -> valid_hmsu h mi s us = true ->
  parse_isotime (render_time ts h mi s us ++ render_off o) =
  Ok (let '(h', mi', s', us') := trunc_time ts h mi s us in (h', mi', s', us', tz_of o)).
Proof. exact parse_isotime_render. Qed.
Print Assumptions C07_parse_isotime_render.

Theorem C07_parse_isotime_2400 : forall ts o,
  wf_tspec ts = true -> wf_off o = true ->
  (let '(TS _ _ _ extra) := ts in forallb (Z.eqb 0) extra = true) ->
  parse_isotime (render_time ts 24 0 0 0 ++ render_off o) = Ok (0, 0, 0, 0, tz_of o).
Proof. exact parse_isotime_2400_render. Qed.
Print Assumptions C07_parse_isotime_2400.

(* offset-only entry point: Z / z / +-HH / +-HHMM / +-HH:MM, zero offset is UTC *)
Theorem C07_parse_tzstr_render : forall o,
  o <> ONone -> wf_off o = true -> parse_tzstr (render_off o) true = Ok (tz_of o).
Proof. exact parse_tzstr_render_lemma. Qed.
Print Assumptions C07_parse_tzstr_render.

(* _calculate_weekdate is the inverse of date.isocalendar, for every date 0001-01-01 .. 9999-12-31 *)
Theorem C07_weekdate_inverse : forall y m d, valid_ymd y m d = true ->
  let '(iy, iw, id) := isocalendar (ord_of_ymd y m d) in calculate_weekdate iy iw id = Ok (y, m, d).
Proof. exact weekdate_inverse_lemma. Qed.
Print Assumptions C07_weekdate_inverse.

(* non-vacuity: concrete formats / datetimes inside the guards, and what they render to *)
Example C07_ex_wf :
  let f := mkFmt FWeekDayX (Some (TS TFracX true 8 [7; 8])) 84 in
  wf_fmt f None (OHH_MM true 5 30) = true /\ wf_fmt f (Some 84) (OHH_MM true 5 30) = true /\
  valid_dt (2014, 12, 29, 12, 30, 45, 123456) = true /\
  render_iso f (2014, 12, 29, 12, 30, 45, 123456) (OHH_MM true 5 30)
    = map Z.of_nat [50;48;49;53;45;87;48;49;45;49;84;49;50;58;51;48;58;52;53;44;49;50;51;52;53;54;55;56;45;48;53;58;51;48]%nat
  /\ expected f (2014, 12, 29, 12, 30, 45, 123456) (OHH_MM true 5 30)
    = (2014, 12, 29, 12, 30, 45, 123456, TzOff (-19800)).       (* '2015-W01-1T12:30:45,12345678-05:30' *)
Proof. vm_compute. repeat split; reflexivity. Qed.
Example C07_ex_2400 :
  let f := mkFmt FOrdB (Some (TS TMinX false 0 [])) 32 in
  wf_fmt_2400 f None (OZulu false) = true /\ valid_ymd 9999 12 31 = true /\
  expected_2400 (9999, 12, 31) (OZulu false) = None /\
  expected_2400 (2016, 12, 31) (OZulu false) = Some (2017, 1, 1, 0, 0, 0, 0, TzUTC) /\
  render_iso_2400 f (2016, 12, 31) (OZulu false)
    = map Z.of_nat [50;48;49;54;51;54;54;32;50;52;58;48;48;90]%nat.        (* '2016366 24:00Z' *)
Proof. vm_compute. repeat split; reflexivity. Qed.
Example C07_ex_aux :
  valid_ymd 2009 12 31 = true /\ trunc_date FWeekB 2009 12 31 = (2009, 12, 28) /\
  render_date FWeekB 2009 12 31 = map Z.of_nat [50;48;48;57;87;53;51]%nat /\           (* '2009W53' *)
  wf_tspec (TS TFracB false 3 []) = true /\ wf_off (OHHMM false 0 0) = true /\
  valid_hmsu 23 59 59 999999 = true /\ tz_of (OHHMM false 0 0) = TzUTC /\
  trunc_time (TS TFracB false 3 []) 23 59 59 999999 = (23, 59, 59, 999000).
Proof. vm_compute. repeat split; reflexivity. Qed.
Example C07_ex_time_2400 :
  wf_tspec (TS TFracX false 7 [0]) = true /\ wf_off (OHH true 3) = true /\ OHH true 3 <> ONone /\
  forallb (Z.eqb 0) [0] = true /\
  render_time (TS TFracX false 7 [0]) 24 0 0 0 ++ render_off (OHH true 3)
    = map Z.of_nat [50;52;58;48;48;58;48;48;46;48;48;48;48;48;48;48;45;48;51]%nat.   (* '24:00:00.0000000-03' *)
Proof. vm_compute. repeat split; try reflexivity. discriminate. Qed.

(* ------------------------------------------------------------------------------------------------
   Model <-> source: coq/gen/IsoGen.v is regenerated from isoparser.py by harness/gen_iso.py on every
   run; the translated functions are the hand model, so the inverse laws hold of the translated source. *)
From V Require Import iso.IsoGenLib gen.IsoGen iso.IsoGenThm iso.IsoGenCor.

Theorem C07_gen_isoparse : forall sep s, gen_isoparse (sep_bytes sep) s = isoparse sep s.
Proof. exact gen_isoparse_eq. Qed.
Print Assumptions C07_gen_isoparse.

Theorem C07_gen_entry_points : forall s z,
  gen_parse_isodate s = parse_isodate s /\ gen_parse_isotime s = parse_isotime s /\
  gen_parse_tzstr s z = parse_tzstr s z.
Proof. exact (fun s z => conj (gen_parse_isodate_eq s) (conj (gen_parse_isotime_eq s) (gen_parse_tzstr_eq s z))). Qed.
Print Assumptions C07_gen_entry_points.

Theorem C07_gen_calculate_weekdate : forall y w d, gen__calculate_weekdate y w d = calculate_weekdate y w d.
Proof. exact gen_calculate_weekdate_eq. Qed.
Print Assumptions C07_gen_calculate_weekdate.

Theorem C07_gen_isoparse_render : forall f sep o dt,
  wf_fmt f sep o = true -> valid_dt dt = true ->
  gen_isoparse (sep_bytes sep) (render_iso f dt o) = Ok (expected f dt o).
Proof. exact gen_isoparse_render. Qed.
Print Assumptions C07_gen_isoparse_render.

Theorem C07_gen_isoparse_2400 : forall f sep o y m d,
  wf_fmt_2400 f sep o = true -> valid_ymd y m d = true ->
  gen_isoparse (sep_bytes sep) (render_iso_2400 f (y, m, d) o) = lift (expected_2400 (y, m, d) o).
Proof. exact gen_isoparse_2400. Qed.
Print Assumptions C07_gen_isoparse_2400.
