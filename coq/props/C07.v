(* C07 -- isoparse inverts every ISO-8601 rendering.
   Statements only; proofs are in iso/IsoThm*.v over the hand-written model iso/IsoModel.v
   (regenerated from /repo/src/dateutil/parser/isoparser.py, see the last section; tied to the running code by
   harness/check_C07.py).  render_iso / render_date / render_time / render_off, wf_fmt, expected, trunc_* are
   the specification of iso/IsoSpec.v (Part B); wf_fmt_text / fmt_ordinal_digit are in iso/IsoText.v.

   THE RENDERINGS THE THEOREMS ARE ABOUT: [wf_fmt_text] = every date form x time form x fraction digits x any
   single ASCII separator byte (or the configured one) x offset form (incl. lower-case z and negative zero, read
   as UTC); date, time and offset notation (basic / extended) vary independently.  [wf_fmt] = [wf_fmt_text]
   minus the renderings of the OPEN finding F-C07-ordinal-digit-sep (basic ordinal date YYYYDDD followed by a
   DIGIT as separator, e.g. '2014123412': rejected with ValueError although it has exactly one well-formed
   reading; only reachable with no configured separator, the constructor refuses digits).  The guard of
   C07_isoparse_render_guarded is exactly the complement of that finding; C07_isoparse_render_refuted_ordinal_digit
   is the witness inside it.  The hour-24 law is stated for an all-zero fraction only (extra digits 0): a non-zero
   digit beyond microseconds after 24:00:00 is the C20 finding F-C20-2400-subus. *)
From Coq Require Import ZArith List Bool.
From V Require Import base.Cal iso.IsoBase iso.IsoModel iso.IsoSpec iso.IsoThm iso.IsoThmTz iso.IsoThmTime
                      iso.IsoThmWeek iso.IsoThmMain iso.IsoThmRender iso.IsoText iso.IsoTextThm.
Import ListNotations.
Open Scope Z_scope.

(* the inverse law: every date form x time form x fraction digits (any number >= 1, dot or comma)
   x separator byte (configured or not) x offset form, every datetime 0001-01-01 .. 9999-12-31:
   parsing the rendering returns the datetime truncated to the rendered precision, offset zero
   as UTC *)
Theorem C07_isoparse_render : forall f sep o dt,
  wf_fmt f sep o = true -> valid_dt dt = true ->
  isoparse sep (render_iso f dt o) = Ok (expected f dt o).
Proof. exact isoparse_render. Qed.
Print Assumptions C07_isoparse_render.

(* 24:00 (all other time fields zero) is 00:00 of the following day; after 9999-12-31 it is a
   ValueError (expected_2400 = None) *)
Theorem C07_isoparse_2400 : forall f sep o y m d,
  wf_fmt_2400 f sep o = true -> valid_ymd y m d = true ->
  isoparse sep (render_iso_2400 f (y, m, d) o) = lift (expected_2400 (y, m, d) o).
Proof. exact isoparse_2400. Qed.
Print Assumptions C07_isoparse_2400.

(* date-only entry point, all ten date forms *)
Theorem C07_parse_isodate_render : forall f y m d, valid_ymd y m d = true ->
  parse_isodate (render_date f y m d) = Ok (trunc_date f y m d).
Proof. exact parse_isodate_render. Qed.
Print Assumptions C07_parse_isodate_render.

(* time-only entry point, all seven time forms with any offset form *)
Theorem C07_parse_isotime_render : forall ts h mi s us o,
  wf_tspec ts = true -> wf_off o = true -> valid_hmsu h mi s us = true ->
  parse_isotime (render_time ts h mi s us ++ render_off o) =
  Ok (let '(h', mi', s', us') := trunc_time ts h mi s us in (h', mi', s', us', tz_of o)).
Proof. exact parse_isotime_render. Qed.
Print Assumptions C07_parse_isotime_render.

Theorem C07_parse_isotime_2400 : forall ts o,
  wf_tspec ts = true -> wf_off o = true ->
  (let '(TS _ _ _ extra) := ts in forallb (Z.eqb 0) extra = true) ->
  parse_isotime (render_time ts 24 0 0 0 ++ render_off o) = Ok (0, 0, 0, 0, tz_of o).
Proof. exact parse_isotime_2400_render. Qed.
Print Assumptions C07_parse_isotime_2400.

(* offset-only entry point: Z / z / +-HH / +-HHMM / +-HH:MM, zero offset is UTC *)
Theorem C07_parse_tzstr_render : forall o,
  o <> ONone -> wf_off o = true -> parse_tzstr (render_off o) true = Ok (tz_of o).
Proof. exact parse_tzstr_render_lemma. Qed.
Print Assumptions C07_parse_tzstr_render.

(* _calculate_weekdate is the inverse of date.isocalendar, for every date 0001-01-01 .. 9999-12-31 *)
Theorem C07_weekdate_inverse : forall y m d, valid_ymd y m d = true ->
  let '(iy, iw, id) := isocalendar (ord_of_ymd y m d) in calculate_weekdate iy iw id = Ok (y, m, d).
Proof. exact weekdate_inverse_lemma. Qed.
Print Assumptions C07_weekdate_inverse.

(* the inverse law over the renderings of the property text; guard = complement of F-C07-ordinal-digit-sep *)
Theorem C07_isoparse_render_guarded : forall f sep o dt,
  wf_fmt_text f sep o = true -> fmt_ordinal_digit f = false -> valid_dt dt = true ->
  isoparse sep (render_iso f dt o) = Ok (expected f dt o).
Proof. exact isoparse_render_guarded. Qed.
Print Assumptions C07_isoparse_render_guarded.

(* inside the guard the law fails: '2014123412' renders 2014-05-03T12 (ordinal basic, separator '4'), the text
   grammar reads it back, isoparse raises ValueError *)
Theorem C07_isoparse_render_refuted_ordinal_digit :
  fmt_ordinal_digit w_ordigit_fmt = true /\ wf_fmt_text w_ordigit_fmt None ONone = true /\
  valid_dt (2014, 5, 3, 12, 0, 0, 0) = true /\
  render_iso w_ordigit_fmt (2014, 5, 3, 12, 0, 0, 0) ONone = w_ordigit /\
  finding_ordinal_digit None w_ordigit = true /\
  iso_text None w_ordigit = Some (expected w_ordigit_fmt (2014, 5, 3, 12, 0, 0, 0) ONone) /\
  isoparse None w_ordigit = Err ValueError.
Proof. exact isoparse_render_refuted_ordinal_digit. Qed.
Print Assumptions C07_isoparse_render_refuted_ordinal_digit.

(* offset-only entry point with zero_as_utc=False: same inverse law without the UTC normalisation
   (+00:00 and -00:00 are tzoffset(None, 0)) *)
Theorem C07_parse_tzstr_render_noutc : forall o,
  o <> ONone -> wf_off o = true -> parse_tzstr (render_off o) false = Ok (tz_of_noutc o).
Proof. exact parse_tzstr_render_noutc. Qed.
Print Assumptions C07_parse_tzstr_render_noutc.

(* non-vacuity: concrete formats / datetimes inside the guards, and what they render to *)
Example C07_ex_wf :
  let f := mkFmt FWeekDayX (Some (TS TFracX true 8 [7; 8])) 84 in
  wf_fmt f None (OHH_MM true 5 30) = true /\ wf_fmt f (Some 84) (OHH_MM true 5 30) = true /\
  valid_dt (2014, 12, 29, 12, 30, 45, 123456) = true /\
  render_iso f (2014, 12, 29, 12, 30, 45, 123456) (OHH_MM true 5 30)
    = map Z.of_nat [50;48;49;53;45;87;48;49;45;49;84;49;50;58;51;48;58;52;53;44;49;50;51;52;53;54;55;56;45;48;53;58;51;48]%nat
  /\ expected f (2014, 12, 29, 12, 30, 45, 123456) (OHH_MM true 5 30)
    = (2014, 12, 29, 12, 30, 45, 123456, TzOff (-19800)).       (* '2015-W01-1T12:30:45,12345678-05:30' *)
Proof. vm_compute. repeat split; reflexivity. Qed.
Example C07_ex_2400 :
  let f := mkFmt FOrdB (Some (TS TMinX false 0 [])) 32 in
  wf_fmt_2400 f None (OZulu false) = true /\ valid_ymd 9999 12 31 = true /\
  expected_2400 (9999, 12, 31) (OZulu false) = None /\
  expected_2400 (2016, 12, 31) (OZulu false) = Some (2017, 1, 1, 0, 0, 0, 0, TzUTC) /\
  render_iso_2400 f (2016, 12, 31) (OZulu false)
    = map Z.of_nat [50;48;49;54;51;54;54;32;50;52;58;48;48;90]%nat.        (* '2016366 24:00Z' *)
Proof. vm_compute. repeat split; reflexivity. Qed.
Example C07_ex_aux :
  valid_ymd 2009 12 31 = true /\ trunc_date FWeekB 2009 12 31 = (2009, 12, 28) /\
  render_date FWeekB 2009 12 31 = map Z.of_nat [50;48;48;57;87;53;51]%nat /\           (* '2009W53' *)
  wf_tspec (TS TFracB false 3 []) = true /\ wf_off (OHHMM false 0 0) = true /\
  valid_hmsu 23 59 59 999999 = true /\ tz_of (OHHMM false 0 0) = TzUTC /\
  trunc_time (TS TFracB false 3 []) 23 59 59 999999 = (23, 59, 59, 999000).
Proof. vm_compute. repeat split; reflexivity. Qed.
Example C07_ex_time_2400 :
  wf_tspec (TS TFracX false 7 [0]) = true /\ wf_off (OHH true 3) = true /\ OHH true 3 <> ONone /\
  forallb (Z.eqb 0) [0] = true /\
  render_time (TS TFracX false 7 [0]) 24 0 0 0 ++ render_off (OHH true 3)
    = map Z.of_nat [50;52;58;48;48;58;48;48;46;48;48;48;48;48;48;48;45;48;51]%nat.   (* '24:00:00.0000000-03' *)
Proof. vm_compute. repeat split; try reflexivity. discriminate. Qed.

(* ------------------------------------------------------------------------------------------------
   Model <-> source: coq/gen/IsoGen.v is regenerated from isoparser.py by harness/gen_iso.py on every
   run; the translated functions are the hand model, so the inverse laws hold of the translated source. *)
From V Require Import iso.IsoGenLib gen.IsoGen iso.IsoGenThm iso.IsoGenCor.

Theorem C07_gen_isoparse : forall sep i, gen_isoparse (sep_bytes sep) i = isoparse sep (codes i).
Proof. exact gen_isoparse_eq. Qed.
Print Assumptions C07_gen_isoparse.

Theorem C07_gen_entry_points : forall i z,
  gen_parse_isodate i = parse_isodate (codes i) /\ gen_parse_isotime i = parse_isotime (codes i) /\
  gen_parse_tzstr i z = parse_tzstr (codes i) z.
Proof. exact (fun i z => conj (gen_parse_isodate_eq i) (conj (gen_parse_isotime_eq i) (gen_parse_tzstr_eq i z))). Qed.
Print Assumptions C07_gen_entry_points.

Theorem C07_gen_calculate_weekdate : forall y w d, gen__calculate_weekdate y w d = calculate_weekdate y w d.
Proof. exact gen_calculate_weekdate_eq. Qed.
Print Assumptions C07_gen_calculate_weekdate.

(* "str, bytes and stream inputs are equivalent": the decorator _takes_ascii is translated too
   ([pyin]: InDirect / InStream of PText code points / PBytes byte values); whatever the kind, all four entry
   points (any configured separator, any zero_as_utc flag) depend only on the characters [codes i] *)
Theorem C07_gen_input_kinds_equiv : forall sep i j z, codes i = codes j ->
  gen_isoparse sep i = gen_isoparse sep j /\ gen_parse_isodate i = gen_parse_isodate j /\
  gen_parse_isotime i = gen_parse_isotime j /\ gen_parse_tzstr i z = gen_parse_tzstr j z.
Proof. exact gen_input_kinds. Qed.
Print Assumptions C07_gen_input_kinds_equiv.

(* the four kinds over the same characters have the same [codes] (so the hypothesis above is met) *)
Theorem C07_gen_input_kinds_codes : forall l,
  codes (InDirect (PText l)) = l /\ codes (InDirect (PBytes l)) = l /\
  codes (InStream (PText l)) = l /\ codes (InStream (PBytes l)) = l.
Proof. exact codes_kinds. Qed.
Print Assumptions C07_gen_input_kinds_codes.

Theorem C07_gen_isoparse_render : forall f sep o dt,
  wf_fmt f sep o = true -> valid_dt dt = true ->
  forall i, codes i = render_iso f dt o -> gen_isoparse (sep_bytes sep) i = Ok (expected f dt o).
Proof. exact gen_isoparse_render. Qed.
Print Assumptions C07_gen_isoparse_render.

Theorem C07_gen_isoparse_2400 : forall f sep o y m d,
  wf_fmt_2400 f sep o = true -> valid_ymd y m d = true ->
  forall i, codes i = render_iso_2400 f (y, m, d) o ->
  gen_isoparse (sep_bytes sep) i = lift (expected_2400 (y, m, d) o).
Proof. exact gen_isoparse_2400. Qed.
Print Assumptions C07_gen_isoparse_2400.
