(* C16 -- relativedelta is a well-behaved value: normalised, comparable, hashable; operators.
   Statements only; the proofs are in rd/RdAlgThm.v, rd/RdAlgLaws.v, rd/RdAlgLaws2.v,
   rd/RdAlgLaws3.v, rd/RdAlgLaws4.v over the model rd/RdModel.v + rd/RdAlgModel.v and the spec rd/RdAlgSpec.v.
   Quantifiers range over all of Z.  DOMAIN: the code goes through C doubles in two places that the model
   (and the translator) read as exact integer operations: _sign = int(copysign(1, x)) raises
   OverflowError for |x| >= 2^1024, and d * k = int(field * float(k)) is exact only while k and every
   product fit 53 bits.  Theorems about fix_rel / mk / the operators are therefore theorems about
   the code for |fields| < 2^1024 (IDEALISED beyond: the model has Python ints all the way), and the
   theorems about multiplication carry the bound `mul_exact` explicitly (rd/RdAlgBound.v).
   Float-valued fields and float / Fraction scalars are outside these theorems (see the _partial
   theorems at the end and harness/check_C16.py). *)
From Coq Require Import ZArith List Bool.
From V Require Import base.Cal gen.RdTables rd.RdBase rd.RdModel rd.RdAlgModel rd.RdAlgSpec
  rd.RdAlgThm rd.RdAlgLaws rd.RdAlgLaws2 rd.RdAlgLaws3 rd.RdAlgLaws4 rd.RdAlgBound rd.RdAlgQModel rd.RdAlgQThm rd.RdAlgQLaws.
Open Scope Z_scope.

(* after _fix: |months| < 12, |hours| < 24, |minutes| < 60, |seconds| < 60, |microseconds| < 10^6 *)
Theorem C16_fix_normalised : forall r,
  Z.abs (f_months (fix_rel r)) < 12 /\ Z.abs (f_hours (fix_rel r)) < 24 /\
  Z.abs (f_minutes (fix_rel r)) < 60 /\ Z.abs (f_seconds (fix_rel r)) < 60 /\
  Z.abs (f_us (fix_rel r)) < 1000000.
Proof. exact fix_normalised. Qed.
Print Assumptions C16_fix_normalised.

(* the carries preserve the total duration (in microseconds) and the total number of months *)
Theorem C16_fix_total : forall r,
  rel_us (fix_rel r) = rel_us r /\ rel_months (fix_rel r) = rel_months r.
Proof. exact fix_total. Qed.
Print Assumptions C16_fix_total.

(* the code's carries are the sign-preserving (truncating) carries of the specification *)
Theorem C16_fix_is_spec : forall r, fix_rel r = spec_fix_rel r.
Proof. exact fix_is_spec. Qed.
Print Assumptions C16_fix_is_spec.

(* declarative reading of one carry step: the sign-preserving carry that preserves the total is
   unique, and it is what the code computes *)
Theorem C16_carry_unique : forall b lo up lo' up', 0 < b ->
  up' * b + lo' = up * b + lo -> Z.abs lo' < b -> 0 <= lo' * lo ->
  carry b lo up = (lo', up').
Proof. exact carry_unique. Qed.
Print Assumptions C16_carry_unique.

(* signs as documented: one-signed arguments keep their sign through every carry *)
Theorem C16_fix_sign : forall r,
  (all_nonneg r -> all_nonneg (fix_rel r)) /\ (all_nonpos r -> all_nonpos (fix_rel r)).
Proof. exact fix_sign. Qed.
Print Assumptions C16_fix_sign.

Theorem C16_fix_idempotent : forall r, fix_rel (fix_rel r) = fix_rel r.
Proof. exact fix_idempotent. Qed.
Print Assumptions C16_fix_idempotent.

(* every delta the keyword constructor returns (weeks, weekday forms, yearday, nlyearday
   included; also with rational years / months) is normalised *)
Theorem C16_mk_wf : forall k d, mk k = Ok d -> wf d.
Proof. exact mk_wf. Qed.
Print Assumptions C16_mk_wf.

Theorem C16_mk_frac_wf : forall yn yd mn md k d, mk_frac yn yd mn md k = Ok d -> wf d.
Proof. exact mk_frac_wf. Qed.
Print Assumptions C16_mk_frac_wf.

Theorem C16_mk_diff_wf : forall dt1 dt2 d, mk_diff dt1 dt2 = Ok d -> wf d.
Proof. exact mk_diff_wf. Qed.
Print Assumptions C16_mk_diff_wf.

(* every operator returns a normalised delta, whatever its operands *)
Theorem C16_ops_preserve_wf : forall a b k p x y z,
  wf (neg a) /\ wf (abs_rd a) /\ wf (add_rd a b) /\ wf (sub_rd a b) /\ wf (mul_int a k) /\
  wf (mul_with a p) /\ wf (normalized a) /\ wf (add_td a x y z).
Proof. exact ops_preserve_wf. Qed.
Print Assumptions C16_ops_preserve_wf.

(* ... and carries preserve the totals through the operators *)
Theorem C16_ops_totals : forall a b x y z,
  (rel_us (rel (neg a)) = - rel_us (rel a) /\ rel_months (rel (neg a)) = - rel_months (rel a)) /\
  (rel_us (rel (add_rd a b)) = rel_us (rel a) + rel_us (rel b) /\
   rel_months (rel (add_rd a b)) = rel_months (rel a) + rel_months (rel b)) /\
  (rel_us (rel (sub_rd a b)) = rel_us (rel a) - rel_us (rel b) /\
   rel_months (rel (sub_rd a b)) = rel_months (rel a) - rel_months (rel b)) /\
  (rel_us (rel (add_td a x y z)) = rel_us (rel a) + ((x * 86400 + y) * 1000000 + z) /\
   rel_months (rel (add_td a x y z)) = rel_months (rel a)).
Proof. exact totals_laws_nomul. Qed.
Print Assumptions C16_ops_totals.

(* d * k for an integer k, inside the float-exactness bound (k and every product below 2^53 in
   absolute value): the totals are multiplied by k.  Beyond the bound the code rounds
   ((relativedelta(days=2**53+1) * 1).days = 2**53); the unbounded statement mul_int_total is about the
   idealised model only. *)
Theorem C16_mul_totals_bounded : forall a k, mul_exact a k ->
  rel_us (rel (mul_int a k)) = rel_us (rel a) * k /\ rel_months (rel (mul_int a k)) = rel_months (rel a) * k.
Proof. exact mul_int_total_bounded. Qed.
Print Assumptions C16_mul_totals_bounded.

(* constructing a delta from its own fields reproduces it (Leibniz-equal, hence ==) *)
Theorem C16_mk_fields_id : forall d, wf d -> mk (fields_of d) = Ok d.
Proof. exact mk_fields_id. Qed.
Print Assumptions C16_mk_fields_id.

(* equality is an equivalence ... *)
Theorem C16_eqb_refl : forall a, eqb a a = true.
Proof. exact eqb_refl. Qed.
Print Assumptions C16_eqb_refl.

Theorem C16_eqb_sym : forall a b, eqb a b = eqb b a.
Proof. exact eqb_sym. Qed.
Print Assumptions C16_eqb_sym.

Theorem C16_eqb_trans : forall a b c, eqb a b = true -> eqb b c = true -> eqb a c = true.
Proof. exact eqb_trans. Qed.
Print Assumptions C16_eqb_trans.

(* ... consistent with hashing: equal deltas have the same hash key (the tuple handed to hash()),
   including weekdays whose n is absent, 0 or 1; and the key separates unequal deltas *)
Theorem C16_eqb_hash : forall a b, eqb a b = true <-> hash_key a = hash_key b.
Proof. exact eqb_iff_hash_key. Qed.
Print Assumptions C16_eqb_hash.

(* __eq__ computes the specification's equality "same canonical form" *)
Theorem C16_eqb_is_spec : forall a b, eqb a b = spec_eqb a b.
Proof. exact eqb_is_spec. Qed.
Print Assumptions C16_eqb_is_spec.

(* -(-d) == d *)
Theorem C16_neg_involutive : forall d, wf d -> neg (neg d) = d.
Proof. exact neg_involutive. Qed.
Print Assumptions C16_neg_involutive.

Theorem C16_neg_neg_any : forall d, neg (neg d) = fix_rd d.
Proof. exact neg_neg. Qed.
Print Assumptions C16_neg_neg_any.

(* d + (-d), (-d) + d and d - d have no relative part *)
Theorem C16_add_neg_no_relative : forall d,
  no_rel (add_rd d (neg d)) = true /\ no_rel (add_rd (neg d) d) = true /\ no_rel (sub_rd d d) = true.
Proof. exact no_relative_laws_nomul. Qed.
Print Assumptions C16_add_neg_no_relative.

(* more precisely: d + (-d) is d with its relative fields zeroed *)
Theorem C16_add_neg_exact : forall d, add_rd d (neg d) = mkrd rel0 (leapdays d) (ab d) (wd d).
Proof. exact add_neg_exact. Qed.
Print Assumptions C16_add_neg_exact.

(* bool(d) is false exactly when d has no field set *)
Theorem C16_bool_false_iff_empty : forall d, rd_bool d = false <-> d = rd0.
Proof. exact bool_false_iff_empty. Qed.
Print Assumptions C16_bool_false_iff_empty.

Theorem C16_bool_iff_eq_empty : forall d, rd_bool d = negb (eqb d rd0).
Proof. exact bool_iff_eq_empty. Qed.
Print Assumptions C16_bool_iff_eq_empty.

(* two equal deltas added to (or subtracted from) any date / datetime give the same result,
   the same exception included *)
Theorem C16_eqb_add_dt : forall a b o, eqb a b = true ->
  add_dt a o = add_dt b o /\ radd a o = radd b o /\ rsub a o = rsub b o.
Proof. exact eqb_acts_equally. Qed.
Print Assumptions C16_eqb_add_dt.

(* equal operands give equal results under every operator *)
Theorem C16_ops_respect_eqb : forall a a' b b' k,
  eqb a a' = true -> eqb b b' = true ->
  eqb (neg a) (neg a') = true /\ eqb (abs_rd a) (abs_rd a') = true /\
  eqb (add_rd a b) (add_rd a' b') = true /\ eqb (sub_rd a b) (sub_rd a' b') = true /\
  eqb (mul_int a k) (mul_int a' k) = true.
Proof. exact ops_respect_eqb. Qed.
Print Assumptions C16_ops_respect_eqb.

(* normalized() of an integer-valued delta is the delta; abs *)
Theorem C16_scalar_laws : forall d,
  (wf d -> normalized d = d) /\ all_nonneg (rel (abs_rd d)) /\ abs_rd (abs_rd d) = abs_rd d.
Proof. exact scalar_laws_nomul. Qed.
Print Assumptions C16_scalar_laws.

(* d * 1 == d, d * -1 == -d, d * 0 has no relative part -- inside the float-exactness bound *)
Theorem C16_scalar_mul_laws_bounded : forall d,
  (wf d -> mul_exact d 1 -> mul_int d 1 = d) /\ (mul_exact d (-1) -> mul_int d (-1) = neg d) /\
  (mul_exact d 0 -> no_rel (mul_int d 0) = true).
Proof. exact scalar_laws_bounded. Qed.
Print Assumptions C16_scalar_mul_laws_bounded.

(* the relative part of a + b does not depend on the order of the operands *)
Theorem C16_add_rel_comm : forall a b, rel (add_rd a b) = rel (add_rd b a).
Proof. exact add_rel_comm. Qed.
Print Assumptions C16_add_rel_comm.

(* d * (p/q) for an exactly representable scalar: int(field * p/q) per field, then _fix; for q = 1
   and products inside the bound it is the integer product *)
Theorem C16_mul_q : forall d p q k,
  wf (mul_q d p q) /\ (mul_exact d k -> mul_q d k 1 = mul_int d k).
Proof. exact mul_q_laws_bounded. Qed.
Print Assumptions C16_mul_q.

(* non-integer years or months (a rational p/q whose denominator does not divide p) are
   rejected with ValueError; integral ones are accepted as that integer *)
Theorem C16_nonint_years_months_rejected : forall yn yd mn md k,
  ~ (Z.pos yd | yn) \/ ~ (Z.pos md | mn) -> mk_frac yn yd mn md k = Err EValue.
Proof. exact nonint_years_months_rejected. Qed.
Print Assumptions C16_nonint_years_months_rejected.

Theorem C16_int_years_months_accepted : forall yn yd mn md k,
  (Z.pos yd | yn) -> (Z.pos md | mn) ->
  mk_frac yn yd mn md k = mk (set_ym k (yn / Z.pos yd) (mn / Z.pos md)).
Proof. exact int_years_months_accepted. Qed.
Print Assumptions C16_int_years_months_accepted.

(* constructor argument forms: weekday=<int> is weekdays[int] (IndexError outside -7..6);
   weekday(n) with n absent, 0 or +1 construct equal deltas; weeks are seven days *)
Theorem C16_mk_weekday_int_form : forall k i,
  mk (set_wd k (WInt i)) =
  if (-7 <=? i) && (i <? 7) then mk (set_wd k (WObj (i mod 7) None)) else Err EIndex.
Proof. exact mk_weekday_int_form. Qed.
Print Assumptions C16_mk_weekday_int_form.

Theorem C16_mk_weekday_n_forms : forall k w n1 n2,
  n_is_default n1 = true -> n_is_default n2 = true ->
  match mk (set_wd k (WObj w n1)), mk (set_wd k (WObj w n2)) with
  | Ok d1, Ok d2 => eqb d1 d2 = true
  | Err e1, Err e2 => e1 = e2
  | _, _ => False
  end.
Proof. exact mk_weekday_n_forms. Qed.
Print Assumptions C16_mk_weekday_n_forms.

Theorem C16_mk_weeks : forall k days weeks,
  mk (set_days_weeks k days weeks) = mk (set_days_weeks k (days + weeks * 7) 0).
Proof. exact mk_weeks. Qed.
Print Assumptions C16_mk_weeks.

(* ---- float-valued fields and normalized(): PARTIAL.
   Full statement (not proved): for every relativedelta whose day/hour/minute/second/microsecond
   fields are IEEE-754 doubles, the constructor's fields are normalised with the total preserved,
   and normalized() returns integer fields, normalised, whose total differs from the exact total
   by at most the rounding of normalized() (about a microsecond).
   Proved part: the same statements for EXACT RATIONAL field values numerator/D (any common
   denominator D > 0) with round(x, 11|10|8) taken as the identity -- i.e. for the values on
   which double arithmetic is exact (dyadic, moderate size; the correspondence compares the model
   with the implementation for denominators 2^j <= 256).  Missing: the rounding behaviour of
   doubles outside that domain (differential-tested only). *)
Theorem C16_float_fix_normalised_partial : forall D r, 0 < D ->
  Z.abs (f_months (fix_q D r)) < 12 /\ Z.abs (f_hours (fix_q D r)) < 24 * D /\
  Z.abs (f_minutes (fix_q D r)) < 60 * D /\ Z.abs (f_seconds (fix_q D r)) < 60 * D /\
  Z.abs (f_us (fix_q D r)) < 1000000 * D.
Proof. exact fix_q_normalised. Qed.
Print Assumptions C16_float_fix_normalised_partial.

Theorem C16_float_fix_total_partial : forall D r, 0 < D ->
  rel_us (fix_q D r) = rel_us r /\ rel_months (fix_q D r) = rel_months r.
Proof. exact fix_q_total. Qed.
Print Assumptions C16_float_fix_total_partial.

(* denominator 1 = the integer model of the theorems above *)
Theorem C16_float_fix_one : forall r, fix_q 1 r = fix_rel r.
Proof. exact fix_q_one. Qed.
Print Assumptions C16_float_fix_one.

(* normalized(): integer fields (a delta of the integer model), normalised, total within half a
   microsecond of the exact total, months untouched; no rounding on integer-valued input *)
Theorem C16_float_normalized_partial : forall D d, 0 < D ->
  wf (normalized_q D d) /\
  2 * Z.abs (rel_us (rel (normalized_q D d)) * D - rel_us (rel d)) <= D /\
  rel_months (rel (normalized_q D d)) = rel_months (rel d).
Proof. exact normalized_q_laws. Qed.
Print Assumptions C16_float_normalized_partial.

Theorem C16_float_normalized_integral : forall D d, 0 < D ->
  normalized_q D (mkrd (scale_rel D (rel d)) (leapdays d) (ab d) (wd d)) = normalized d.
Proof. exact normalized_q_integral. Qed.
Print Assumptions C16_float_normalized_integral.

(* operators on float-valued deltas (same idealisation): results normalised, -(-d) == d,
   d + (-d) and d - d have no relative part *)
Theorem C16_float_ops_partial : forall D a b, 0 < D ->
  (normal_q D (rel (ctor_q D a)) /\ normal_q D (rel (neg_q D a)) /\ normal_q D (rel (abs_q D a)) /\
   normal_q D (rel (add_q D a b)) /\ normal_q D (rel (sub_q D a b))) /\
  neg_q D (neg_q D a) = ctor_q D a /\
  (normal_q D (rel a) -> neg_q D (neg_q D a) = a /\
     no_rel (add_q D a (neg_q D a)) = true /\ no_rel (sub_q D a a) = true).
Proof. exact ops_q_laws. Qed.
Print Assumptions C16_float_ops_partial.

(* ======== model <-> code tie by TRANSLATION: gen/RdMethodsGen.v is regenerated from
   /repo/src/dateutil/relativedelta.py and _common.py on every run by harness/gen_rd_methods.py
   (fail-closed Python-ast translator); the generated definitions equal the hand model used by all
   theorems above, for ALL inputs, and never raise AttributeError.  (Required here, after the
   theorems about the hand model, so that a source change that breaks the translation leaves those
   counted as discharged and only the C16_gen_* obligations broken.) *)
From V Require Import rd.RdGenBase gen.RdMethodsGen rd.RdGenThm rd.RdGenBound.

(* _sign = int(copysign(1, x)): -1 / +1 while float(x) exists; OverflowError from 2^1024 on (the
   unbounded gen_sign_is_sgn is the idealised statement about the translation) *)
Theorem C16_gen_sign : forall x, float_range x -> gen_sign x = sgn x.
Proof. exact gen_sign_bounded. Qed.
Print Assumptions C16_gen_sign.

Theorem C16_gen_fix : forall o, gen_fix o = GOk (obj_of_rd (fix_rd (rd_of_obj o))).
Proof. exact gen_fix_correct. Qed.
Print Assumptions C16_gen_fix.

Theorem C16_gen_set_months : forall o m,
  gen_set_months o m = GOk (obj_with_flag (set_months (rd_of_obj o) m) (o_has_time o)).
Proof. exact gen_set_months_correct. Qed.
Print Assumptions C16_gen_set_months.

Theorem C16_gen_neg : forall o, gen_neg o = GOk (obj_of_rd (neg (rd_of_obj o))).
Proof. exact gen_neg_correct. Qed.
Print Assumptions C16_gen_neg.

Theorem C16_gen_abs : forall o, gen_abs o = GOk (obj_of_rd (abs_rd (rd_of_obj o))).
Proof. exact gen_abs_correct. Qed.
Print Assumptions C16_gen_abs.

Theorem C16_gen_add : forall a b, gen_add a b = GOk (obj_of_rd (add_rd (rd_of_obj a) (rd_of_obj b))).
Proof. exact gen_add_correct. Qed.
Print Assumptions C16_gen_add.

Theorem C16_gen_sub : forall a b, gen_sub a b = GOk (obj_of_rd (sub_rd (rd_of_obj a) (rd_of_obj b))).
Proof. exact gen_sub_correct. Qed.
Print Assumptions C16_gen_sub.

Theorem C16_gen_add_td : forall o t,
  gen_add_td o t = GOk (obj_of_rd (add_td (rd_of_obj o) (td_days t) (td_seconds t) (td_microseconds t))).
Proof. exact gen_add_td_correct. Qed.
Print Assumptions C16_gen_add_td.

Theorem C16_gen_normalized : forall o, gen_normalized o = GOk (obj_of_rd (normalized (rd_of_obj o))).
Proof. exact gen_normalized_correct. Qed.
Print Assumptions C16_gen_normalized.

(* __mul__ by an int: float(other), int(field * f) read as the exact integer product -- the code's
   behaviour inside the float-exactness bound only *)
Theorem C16_gen_mul : forall o k, mul_exact (rd_of_obj o) k ->
  gen_mul o k = GOk (obj_of_rd (mul_int (rd_of_obj o) k)).
Proof. exact gen_mul_bounded. Qed.
Print Assumptions C16_gen_mul.

Theorem C16_gen_bool : forall o, gen_bool o = GOk (rd_bool (rd_of_obj o)).
Proof. exact gen_bool_correct. Qed.
Print Assumptions C16_gen_bool.

Theorem C16_gen_eq : forall a b, gen_eq a b = GOk (eqb (rd_of_obj a) (rd_of_obj b)).
Proof. exact gen_eq_correct. Qed.
Print Assumptions C16_gen_eq.

Theorem C16_gen_ne : forall a b, gen_ne a b = GOk (negb (eqb (rd_of_obj a) (rd_of_obj b))).
Proof. exact gen_ne_correct. Qed.
Print Assumptions C16_gen_ne.

Theorem C16_gen_hash : forall o, gen_hash o = GOk (tuple_of_key (hash_key (rd_of_obj o))).
Proof. exact gen_hash_correct. Qed.
Print Assumptions C16_gen_hash.

Theorem C16_gen_hash_key_inj : forall k k', tuple_of_key k = tuple_of_key k' -> k = k'.
Proof. exact tuple_of_key_inj. Qed.
Print Assumptions C16_gen_hash_key_inj.

(* _common.weekday: == is exactly "same (weekday, n)", and it hashes that pair *)
Theorem C16_gen_weekday_eq : forall a b, gen_wd_eq a b = GOk true <-> a = b.
Proof. exact gen_wd_eq_correct. Qed.
Print Assumptions C16_gen_weekday_eq.

Theorem C16_gen_weekday_eq_total : forall a b, exists r, gen_wd_eq a b = GOk r.
Proof. exact gen_wd_eq_total. Qed.
Print Assumptions C16_gen_weekday_eq_total.

Theorem C16_gen_weekday_init : forall w k n, gen_wd_init w k n = GOk (k, n).
Proof. exact gen_wd_init_correct. Qed.
Print Assumptions C16_gen_weekday_init.

Theorem C16_gen_weekday_call : forall w n, gen_wd_call w n = GOk (fst w, n).
Proof. exact gen_wd_call_correct. Qed.
Print Assumptions C16_gen_weekday_call.

Theorem C16_gen_weekday_hash : forall a, gen_wd_hash a = GOk a.
Proof. exact gen_wd_hash_correct. Qed.
Print Assumptions C16_gen_weekday_hash.

(* ======== the same source of _fix, read on float-valued day/hour/minute/second/microsecond fields
   as exact rationals numerator / D, equals the hand-written rational idealisation used by the
   C16_float_*_partial theorems (IEEE rounding remains outside: partial) *)
From V Require Import rd.RdGenQThm.

Theorem C16_gen_fix_q_partial : forall D o, gen_fix_q D o = GOk (obj_of_rd (ctor_q D (rd_of_obj o))).
Proof. exact gen_fix_q_correct. Qed.
Print Assumptions C16_gen_fix_q_partial.

(* normalized() in the same rational reading (int() truncates, round(x, k) idealised as the identity,
   the final round() nearest-even): the constructor receives exactly the integer fields of the
   hand-written normalized_q, and the result is the integer-model delta normalized_q D d (scaled) *)
Theorem C16_gen_normalized_q_partial : forall D o, 0 < D ->
  gen_normalized_q D o = GOk (obj_of_rd (scale_rd D (normalized_q D (rd_of_obj o)))).
Proof. exact gen_normalized_q_scaled. Qed.
Print Assumptions C16_gen_normalized_q_partial.

Theorem C16_gen_fix_q_one : forall o, gen_fix_q 1 o = gen_fix o.
Proof. exact gen_fix_q_one. Qed.
Print Assumptions C16_gen_fix_q_one.

(* ======== the whole keyword path of __init__, translated: statements before `yday = 0`
   (gen_init_head, this translator), the yearday / nlyearday conversion (gen_init_yearday, translated by
   harness/gen_rd_add.py for C03) and the final _fix, composed in source order, equal the model's
   constructor -- weeks, weekday=int (IndexError outside -7..6) / weekday object, ValueError for
   non-integer years / months, invalid year day, carries. *)
From V Require Import rd.RdAddGenBase gen.RdAddGen rd.RdAddGenThm rd.RdGenInitThm.

Theorem C16_gen_init_head : forall a,
  gen_init_head a =
  if negb (q_is_int (fst (ia_years a)) (snd (ia_years a))) || negb (q_is_int (fst (ia_months a)) (snd (ia_months a)))
  then Err EValue
  else bind (conv_wd (ia_weekday a)) (fun w => Ok (head_obj a w)).
Proof. exact gen_init_head_correct. Qed.
Print Assumptions C16_gen_init_head.

Theorem C16_gen_init_kw : forall a yearday nlyearday,
  gen_init_kw a yearday nlyearday =
  lift_rd (mk_frac (fst (ia_years a)) (snd (ia_years a)) (fst (ia_months a)) (snd (ia_months a))
                   (kw_of_iargs a yearday nlyearday)).
Proof. exact gen_init_kw_correct. Qed.
Print Assumptions C16_gen_init_kw.

Theorem C16_gen_init_kw_int : forall a yearday nlyearday,
  snd (ia_years a) = 1%positive -> snd (ia_months a) = 1%positive ->
  gen_init_kw a yearday nlyearday =
  lift_rd (mk (set_ym (kw_of_iargs a yearday nlyearday) (fst (ia_years a)) (fst (ia_months a)))).
Proof. exact gen_init_kw_int. Qed.
Print Assumptions C16_gen_init_kw_int.

Theorem C16_gen_init_is_kw : forall o, gen_init_kw (iargs_of_obj o) None None = of_gres (gen_init o).
Proof. exact gen_init_is_kw. Qed.
Print Assumptions C16_gen_init_is_kw.
