(* C10 -- rruleset is the ordered set (rrules U rdates) minus (exrules U exdates).
   Statements only; proofs are in rset/RSetThm.v (the generator rruleset._iter) and
   rset/RSetHistThm.v (histories of mutators, iterators and queries on one object). *)
From Coq Require Import ZArith List Bool.
From V Require Import rset.RSetModel rset.RSetSpec rset.RSetHist rset.RSetThm rset.RSetHistThm.
Import ListNotations.
Open Scope Z_scope.

(* list(iter(rset)) and the published _len, for every heap discipline satisfying the heapq
   contract (so: whatever way ties between equal instants are broken), for all finite members
   that are non-decreasing (strictly increasing rules in particular; dates in any order and with
   duplicates, the code sorts them) *)
Theorem C10_rset_iter_correct : forall H is_heap, heap_contract H is_heap ->
  forall rr rd exr exd, Forall nondec rr -> Forall nondec exr ->
  rset_iter H rr rd exr exd =
  Some (spec_set rr rd exr exd, Some (Z.of_nat (length (spec_set rr rd exr exd)))).
Proof. exact rset_iter_correct. Qed.
Print Assumptions C10_rset_iter_correct.

(* the property as stated: strictly increasing, each instant once, exactly the instants of an
   inclusion member that are in no exclusion member; the generator terminates within the fuel
   S (number of inclusion instants) and publishes the number of instants yielded *)
Theorem C10_rset_strict_increasing : forall H is_heap, heap_contract H is_heap ->
  forall rr rd exr exd, Forall nondec rr -> Forall nondec exr ->
  exists out, rset_iter H rr rd exr exd = Some (out, Some (Z.of_nat (length out))) /\
              strict_sorted out /\
              forall x, In x out <-> (In x (inclusion rr rd) /\ ~ In x (inclusion exr exd)).
Proof. exact rset_strict_increasing. Qed.
Print Assumptions C10_rset_strict_increasing.

Theorem C10_spec_is_recurrence_set : forall rr rd exr exd,
  is_recurrence_set rr rd exr exd (spec_set rr rd exr exd).
Proof. exact spec_set_is_recurrence_set. Qed.
Print Assumptions C10_spec_is_recurrence_set.

Theorem C10_tiebreak_independent : forall H1 P1 H2 P2, heap_contract H1 P1 -> heap_contract H2 P2 ->
  forall rr rd exr exd, Forall nondec rr -> Forall nondec exr ->
  rset_iter H1 rr rd exr exd = rset_iter H2 rr rd exr exd.
Proof. exact rset_tiebreak_independent. Qed.
Print Assumptions C10_tiebreak_independent.

(* the contract is satisfiable: the two extracted heap disciplines (leftmost / rightmost minimum
   first) satisfy it, so the theorems above apply to the oracle the harness runs *)
Theorem C10_heap_instances : forall b, heap_contract (heap_sel b) head_min.
Proof. exact heap_sel_contract. Qed.
Print Assumptions C10_heap_instances.

Theorem C10_strict_members_ok : forall ls, Forall strict_sorted ls -> Forall nondec ls.
Proof. exact Forall_strict_nondec. Qed.
Print Assumptions C10_strict_members_ok.

(* Histories: mutators (each followed by _invalidate_cache), iter(), next() on any live iterator,
   list / count / [i] / in / before / after / between, cache on and off, any heap discipline.
   Guard fresh_history: no next() on an iterator obtained before a later mutator (the complement
   is the open finding F-C10-stale, refuted below).  Every observation then equals the query
   applied to spec_set of the members present at that moment; in particular a mutator after a
   partial or full iteration is reflected by everything observed later. *)
Theorem C10_rset_history : forall H is_heap, heap_contract H is_heap ->
  forall cached ops, Forall op_ok ops -> fresh_history ops = true ->
  run_history H cached ops = spec_history ops.
Proof. exact rset_history. Qed.
Print Assumptions C10_rset_history.

(* under the guard the specification leaves no observation open *)
Theorem C10_fresh_history_specified : forall ops,
  fresh_history ops = true -> ~ In OUnspec (spec_history ops).
Proof. exact fresh_history_specified. Qed.
Print Assumptions C10_fresh_history_specified.

(* FULL STATEMENT without the guard ("every specified observation of every history agrees with
   spec_history") is false of the faithful model: after an iterator obtained before a mutator is
   drained, list(rset) is [] instead of 16 instants and count() is 15 (cache on); count() is 3
   instead of 6 (cache off).  Replayed on the implementation: finding F-C10-stale. *)
Theorem C10_history_unguarded_refuted :
  (Forall op_ok stale_ops_cached /\ fresh_history stale_ops_cached = false /\
   nth_error (spec_history stale_ops_cached) 19 =
     Some (OList [-5; 0; 1; 2; 3; 4; 5; 6; 7; 8; 9; 10; 11; 12; 13; 14]) /\
   nth_error (run_history heap_first true stale_ops_cached) 19 = Some (OList []) /\
   nth_error (spec_history stale_ops_cached) 20 = Some (OVal 16) /\
   nth_error (run_history heap_first true stale_ops_cached) 20 = Some (OVal 15)) /\
  (Forall op_ok stale_ops_uncached /\ fresh_history stale_ops_uncached = false /\
   nth_error (spec_history stale_ops_uncached) 7 = Some (OVal 6) /\
   nth_error (run_history heap_first false stale_ops_uncached) 7 = Some (OVal 3)).
Proof. exact rset_history_unguarded_refuted. Qed.
Print Assumptions C10_history_unguarded_refuted.

(* prefix theorem (finite window form): the instants up to b that the set yields depend only on
   the members' instants up to b.  cut b l = the instants of l that are <= b. *)
Theorem C10_rset_prefix : forall H is_heap, heap_contract H is_heap ->
  forall b rr rd exr exd rr' rd' exr' exd',
  Forall nondec rr -> Forall nondec exr -> Forall nondec rr' -> Forall nondec exr' ->
  map (cut b) rr = map (cut b) rr' -> cut b rd = cut b rd' ->
  map (cut b) exr = map (cut b) exr' -> cut b exd = cut b exd' ->
  exists out p out' p',
    rset_iter H rr rd exr exd = Some (out, p) /\ rset_iter H rr' rd' exr' exd' = Some (out', p') /\
    cut b out = cut b out'.
Proof. exact rset_prefix_agree. Qed.
Print Assumptions C10_rset_prefix.
