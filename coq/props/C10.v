(* C10 -- rruleset is the ordered set (rrules U rdates) minus (exrules U exdates).
   Statements only; proofs are in rset/RSetThm.v (the generator rruleset._iter) and
   rset/RSetHistThm.v (histories of mutators, iterators and queries on one object). *)
From Coq Require Import ZArith List Bool.
From V Require Import rset.RSetModel rset.RSetSpec rset.RSetHist rset.RSetThm rset.RSetHistThm rset.RSetLit rset.RSetLitThm rset.RSetHeapq rset.RSetHeapqThm rset.RSetHist2 rset.RSetHistThm2.
Import ListNotations.
Open Scope Z_scope.

(* list(iter(rset)) and the published _len, for every heap discipline satisfying the heapq
   contract (so: whatever way ties between equal instants are broken), for all finite members
   that are non-decreasing (strictly increasing rules in particular; dates in any order and with
   duplicates, the code sorts them) *)
Theorem C10_rset_iter_correct : forall H is_heap, heap_contract H is_heap ->
  forall rr rd exr exd, Forall nondec rr -> Forall nondec exr ->
  rset_iter H rr rd exr exd =
  Some (spec_set rr rd exr exd, Some (Z.of_nat (length (spec_set rr rd exr exd)))).
Proof. exact rset_iter_correct. Qed.
Print Assumptions C10_rset_iter_correct.

(* the property as stated: strictly increasing, each instant once, exactly the instants of an
   inclusion member that are in no exclusion member; the generator terminates within the fuel
   S (number of inclusion instants) and publishes the number of instants yielded *)
Theorem C10_rset_strict_increasing : forall H is_heap, heap_contract H is_heap ->
  forall rr rd exr exd, Forall nondec rr -> Forall nondec exr ->
  exists out, rset_iter H rr rd exr exd = Some (out, Some (Z.of_nat (length out))) /\
              strict_sorted out /\
              forall x, In x out <-> (In x (inclusion rr rd) /\ ~ In x (inclusion exr exd)).
Proof. exact rset_strict_increasing. Qed.
Print Assumptions C10_rset_strict_increasing.

Theorem C10_spec_is_recurrence_set : forall rr rd exr exd,
  is_recurrence_set rr rd exr exd (spec_set rr rd exr exd).
Proof. exact spec_set_is_recurrence_set. Qed.
Print Assumptions C10_spec_is_recurrence_set.

Theorem C10_tiebreak_independent : forall H1 P1 H2 P2, heap_contract H1 P1 -> heap_contract H2 P2 ->
  forall rr rd exr exd, Forall nondec rr -> Forall nondec exr ->
  rset_iter H1 rr rd exr exd = rset_iter H2 rr rd exr exd.
Proof. exact rset_tiebreak_independent. Qed.
Print Assumptions C10_tiebreak_independent.

(* the contract is satisfiable: the two extracted heap disciplines (leftmost / rightmost minimum
   first) satisfy it, so the theorems above apply to the oracle the harness runs *)
Theorem C10_heap_instances : forall b, heap_contract (heap_sel b) head_min.
Proof. exact heap_sel_contract. Qed.
Print Assumptions C10_heap_instances.

Theorem C10_strict_members_ok : forall ls, Forall strict_sorted ls -> Forall nondec ls.
Proof. exact Forall_strict_nondec. Qed.
Print Assumptions C10_strict_members_ok.

(* Histories: mutators (each followed by _invalidate_cache), iter(), next() on any live iterator,
   list / count / [i] / in / before / after / between, cache on and off, any heap discipline.
   Guard fresh_history: no next() on an iterator obtained before a later mutator (the complement
   is the open finding F-C10-stale, refuted below).  Every observation then equals the query
   applied to spec_set of the members present at that moment; in particular a mutator after a
   partial or full iteration is reflected by everything observed later. *)
Theorem C10_rset_history : forall H is_heap, heap_contract H is_heap ->
  forall cached ops, Forall op_ok ops -> fresh_history ops = true ->
  run_history H cached ops = spec_history ops.
Proof. exact rset_history. Qed.
Print Assumptions C10_rset_history.

(* under the guard the specification leaves no observation open *)
Theorem C10_fresh_history_specified : forall ops,
  fresh_history ops = true -> ~ In OUnspec (spec_history ops).
Proof. exact fresh_history_specified. Qed.
Print Assumptions C10_fresh_history_specified.

(* FULL STATEMENT without the guard ("every specified observation of every history agrees with
   spec_history") is false of the faithful model: after an iterator obtained before a mutator is
   drained, list(rset) is [] instead of 16 instants and count() is 15 (cache on); count() is 3
   instead of 6 (cache off).  Replayed on the implementation: finding F-C10-stale. *)
Theorem C10_history_unguarded_refuted :
  (Forall op_ok stale_ops_cached /\ fresh_history stale_ops_cached = false /\
   nth_error (spec_history stale_ops_cached) 19 =
     Some (OList [-5; 0; 1; 2; 3; 4; 5; 6; 7; 8; 9; 10; 11; 12; 13; 14]) /\
   nth_error (run_history heap_first true stale_ops_cached) 19 = Some (OList []) /\
   nth_error (spec_history stale_ops_cached) 20 = Some (OVal 16) /\
   nth_error (run_history heap_first true stale_ops_cached) 20 = Some (OVal 15)) /\
  (Forall op_ok stale_ops_uncached /\ fresh_history stale_ops_uncached = false /\
   nth_error (spec_history stale_ops_uncached) 7 = Some (OVal 6) /\
   nth_error (run_history heap_first false stale_ops_uncached) 7 = Some (OVal 3)).
Proof. exact rset_history_unguarded_refuted. Qed.
Print Assumptions C10_history_unguarded_refuted.

(* prefix theorem (finite window form): the instants up to b that the set yields depend only on
   the members' instants up to b.  cut b l = the instants of l that are <= b. *)
Theorem C10_rset_prefix : forall H is_heap, heap_contract H is_heap ->
  forall b rr rd exr exd rr' rd' exr' exd',
  Forall nondec rr -> Forall nondec exr -> Forall nondec rr' -> Forall nondec exr' ->
  map (cut b) rr = map (cut b) rr' -> cut b rd = cut b rd' ->
  map (cut b) exr = map (cut b) exr' -> cut b exd = cut b exd' ->
  exists out p out' p',
    rset_iter H rr rd exr exd = Some (out, p) /\ rset_iter H rr' rd' exr' exd' = Some (out', p') /\
    cut b out = cut b out'.
Proof. exact rset_prefix_agree. Qed.
Print Assumptions C10_rset_prefix.

(* object identity: the literal model RSetLit.v, in which every _genitem has a serial number,
   `is` compares serial numbers, `self.dt = ...` updates the object in place and
   _genitem.__next__ has both branches (heappop / remove+heapify), computes exactly the abstract
   generator model for every identified heap discipline that erases to an abstract one --
   so the theorems above apply to it, and the remove+heapify branch is dead. *)
Theorem C10_literal_identity : forall HL H, lit_rel HL H ->
  forall rr rd exr exd, rset_iter_l HL rr rd exr exd = rset_iter H rr rd exr exd.
Proof. exact rset_iter_l_erase. Qed.
Print Assumptions C10_literal_identity.

Theorem C10_literal_instances : forall b, lit_rel (heap_sel_l b) (heap_sel b).
Proof. exact heap_sel_l_rel. Qed.
Print Assumptions C10_literal_instances.

(* the heap discipline the code really uses: heapq.py's _siftdown / _siftup / heapify / heappop /
   heapreplace on the list representation (RSetHeapq.v) satisfy the contract, with the binary
   heap order (every node <= its children) as representation invariant.  Hence all theorems
   above hold for heap_py. *)
Theorem C10_heapq_contract : heap_contract heap_py is_heap_py.
Proof. exact heap_py_contract. Qed.
Print Assumptions C10_heapq_contract.

Theorem C10_rset_iter_heapq : forall rr rd exr exd, Forall nondec rr -> Forall nondec exr ->
  rset_iter heap_py rr rd exr exd =
  Some (spec_set rr rd exr exd, Some (Z.of_nat (length (spec_set rr rd exr exd)))).
Proof. exact (rset_iter_correct heap_py is_heap_py heap_py_contract). Qed.
Print Assumptions C10_rset_iter_heapq.

Theorem C10_rset_history_heapq : forall cached ops, Forall op_ok ops -> fresh_history ops = true ->
  run_history heap_py cached ops = spec_history ops.
Proof. exact (rset_history heap_py is_heap_py heap_py_contract). Qed.
Print Assumptions C10_rset_history_heapq.

(* naive/aware: a set in which no comparison made by the code crosses the two kinds behaves like
   the untagged set (the TypeError side of tag_error is differential only) *)
Theorem C10_tagged_ok : forall H is_heap, heap_contract H is_heap ->
  forall rr rd exr exd, tag_error rr rd exr exd = false ->
  Forall nondec (map snd rr) -> Forall nondec (map snd exr) ->
  rset_iter_tagged H rr rd exr exd =
  TOk (spec_set (map snd rr) (map snd rd) (map snd exr) (map snd exd))
      (Some (Z.of_nat (length (spec_set (map snd rr) (map snd rd) (map snd exr) (map snd exd))))).
Proof. exact rset_iter_tagged_ok. Qed.
Print Assumptions C10_tagged_ok.

(* prefix theorem, literal form: the first k+1 outputs are exactly what the set yields when every
   member is cut at the instant of the (k+1)-th output -- they depend on the member prefixes up
   to that instant only *)
Theorem C10_rset_first_n : forall H is_heap, heap_contract H is_heap ->
  forall rr rd exr exd out p k b, Forall nondec rr -> Forall nondec exr ->
  rset_iter H rr rd exr exd = Some (out, p) -> nth_error out k = Some b ->
  exists p', rset_iter H (map (cut b) rr) (cut b rd) (map (cut b) exr) (cut b exd) = Some (firstn (S k) out, p').
Proof. exact rset_first_n. Qed.
Print Assumptions C10_rset_first_n.

(* sharper guard: an iterator obtained before a later mutator MAY be advanced after it, as long as
   that next() leaves the attributes shared by all iterators (_cache_complete, _cache_gen is None,
   _len) unchanged in the run of the model (mild_history; it also asks every next() to name an
   existing iterator).  What such an iterator itself returns is not specified (OUnspec), every
   other observation is.  F-C10-stale is therefore precisely: a stale iterator driven to the end
   of its generator, which writes those attributes of the invalidated state. *)
Theorem C10_rset_history_mild : forall H is_heap, heap_contract H is_heap ->
  forall cached ops, Forall op_ok ops -> mild_history H cached ops = true ->
  Forall2 (fun a b => b = OUnspec \/ a = b) (run_history H cached ops) (spec_history ops).
Proof. exact rset_history_mild. Qed.
Print Assumptions C10_rset_history_mild.

(* ---- the model is the code: gen/RSetGen.v is REGENERATED from /repo/src/dateutil/rrule.py by
   harness/gen_rset.py on every run (class rruleset: _genitem.__init__ / __next__ / rich comparisons,
   __init__, the four mutators through the decorator _invalidates_cache, _iter; rrulebase.__init__ and
   _invalidate_cache, which the former call).  The generated definitions are the hand-written model
   for ALL inputs (proofs in rset/RSetGenThm.v); a translator abort leaves a gen/RSetGen.v that does
   not compile, so this block -- and with it the whole file -- stops checking. *)
From V Require Import rset.RSetGenBase gen.RSetGen rset.RSetGenThm.

Theorem C10_gen_genitem_init_is_model : forall st gen, gen_genitem_init st gen = genitem_init_l st gen.
Proof. exact gen_genitem_init_is_model. Qed.
Print Assumptions C10_gen_genitem_init_is_model.

Theorem C10_gen_genitem_next_is_model : forall HL genlist self,
  gen_genitem_next HL genlist self = genitem_next_l HL genlist self.
Proof. exact gen_genitem_next_is_model. Qed.
Print Assumptions C10_gen_genitem_next_is_model.

Theorem C10_gen_cmp_is_model : forall a b,
  gen_lt a b = (dt_of a <? dt_of b) /\ gen_gt a b = (dt_of a >? dt_of b) /\
  gen_eq a b = (dt_of a =? dt_of b) /\ gen_ne a b = negb (dt_of a =? dt_of b).
Proof. exact gen_cmp_is_model. Qed.
Print Assumptions C10_gen_cmp_is_model.

(* rruleset._iter, piece by piece: the set-up up to the two heapify calls, the exclusion-cursor loop,
   the generator loop up to the next yield or to `self._len = total`, the code after the yield *)
Theorem C10_gen_setup_is_model : forall HL rr rd exr exd,
  gen_setup HL rr rd exr exd =
  (let (rl0, n1) := gen_list_l 0 rd rr in
   let (ex0, _) := gen_list_l n1 exd exr in
   (heapify_l HL rl0, heapify_l HL ex0, None, 0)).
Proof. exact gen_setup_is_model. Qed.
Print Assumptions C10_gen_setup_is_model.

Theorem C10_gen_exloop_is_model : forall HL fuel ex ritem,
  gen_loop1 HL fuel ex ritem = ex_advance_l HL fuel ex (dt_of ritem).
Proof. exact gen_loop1_is_model. Qed.
Print Assumptions C10_gen_exloop_is_model.

Theorem C10_gen_run_is_model : forall HL fuel rl ex lastdt total,
  gen_run HL fuel rl ex lastdt total = run_l HL fuel rl ex lastdt total.
Proof. exact gen_run_is_model. Qed.
Print Assumptions C10_gen_run_is_model.

Theorem C10_gen_resume_is_model : forall HL r t ex total,
  gen_resume HL (r :: t) ex total = (advance_root_l HL (r :: t), ex, Some (dt_of r), total).
Proof. exact gen_resume_is_model. Qed.
Print Assumptions C10_gen_resume_is_model.

(* the generator assembled from the generated pieces yields what the literal twin yields and, object
   identities erased, what RSetModel.rset_iter yields -- so C10_rset_iter_correct etc. are theorems
   about the regenerated code *)
Theorem C10_gen_iter_is_twin : forall HL rr rd exr exd,
  rset_iter_g HL rr rd exr exd = rset_iter_l HL rr rd exr exd.
Proof. exact gen_iter_is_twin. Qed.
Print Assumptions C10_gen_iter_is_twin.

Theorem C10_gen_iter_is_model : forall HL H, lit_rel HL H ->
  forall rr rd exr exd, rset_iter_g HL rr rd exr exd = rset_iter H rr rd exr exd.
Proof. exact gen_iter_is_model. Qed.
Print Assumptions C10_gen_iter_is_model.

Theorem C10_gen_iter_correct : forall HL H is_heap, lit_rel HL H -> heap_contract H is_heap ->
  forall rr rd exr exd, Forall nondec rr -> Forall nondec exr ->
  rset_iter_g HL rr rd exr exd =
  Some (spec_set rr rd exr exd, Some (Z.of_nat (length (spec_set rr rd exr exd)))).
Proof.
  intros HL H is_heap R C rr rd exr exd Hr He. rewrite (gen_iter_is_model HL H R).
  apply (rset_iter_correct H is_heap C rr rd exr exd Hr He).
Qed.
Print Assumptions C10_gen_iter_correct.

(* the object-level methods: __init__ (rrulebase's through super()), _invalidate_cache, the
   decorator, the four mutators = the operations of RSetHist.v *)
Theorem C10_gen_invalidate_is_model : forall o, gen_invalidate o = invalidate o.
Proof. exact gen_invalidate_is_model. Qed.
Print Assumptions C10_gen_invalidate_is_model.

Theorem C10_gen_init_is_model : forall cache,
  gen_base_init cache = new_obj cache /\ gen_rruleset_init cache = new_obj cache.
Proof. intro cache. split; [apply gen_base_init_is_model|apply gen_rruleset_init_is_model]. Qed.
Print Assumptions C10_gen_init_is_model.

Theorem C10_gen_mutators_are_model : forall H o its,
  (forall l, step H (o, its) (AddRRule l) = ((gen_rrule o l, its), ONone)) /\
  (forall z, step H (o, its) (AddRDate z) = ((gen_rdate o z, its), ONone)) /\
  (forall l, step H (o, its) (AddExRule l) = ((gen_exrule o l, its), ONone)) /\
  (forall z, step H (o, its) (AddExDate z) = ((gen_exdate o z, its), ONone)).
Proof. exact gen_step_mutator. Qed.
Print Assumptions C10_gen_mutators_are_model.
