(* C08 -- tzstr, tzrange and tzlocal implement POSIX TZ rule semantics.
   Statements only; proofs are in posix/PosixThm.v. *)
From Coq Require Import ZArith List Bool.
From V Require Import base.Cal posix.PTime posix.RDelta posix.TzParseModel posix.TzRangeModel
     posix.PosixSpec posix.PosixThm.
Import ListNotations.
Open Scope Z_scope.

Theorem C08_no_dst_fixed : forall z u,
  z.(z_hasdst) = false ->
  observe_utc z u = Ok (mkObs (u + z.(z_std_off)) false z.(z_std_off) 0 z.(z_std_abbr)).
Proof. exact no_dst_fixed_lemma. Qed.
Print Assumptions C08_no_dst_fixed.
