(* C08 -- tzstr, tzrange and tzlocal implement POSIX TZ rule semantics.
   Statements only; proofs are in posix/*Thm.v over the hand models
   posix/TzParseModel.v (_tzparser.parse), posix/TzRangeModel.v (tzstr, tzrange, tzrangebase),
   posix/RDelta.v (relativedelta piece), posix/TzLocalModel.v (tzlocal over an abstract C library)
   and the specification posix/PosixSpec.v. *)
From Coq Require Import ZArith List Bool.
From V Require Import base.Cal posix.PTime posix.RDelta posix.TzParseModel posix.TzRangeModel
     posix.PosixSpec posix.TzLocalModel posix.TransThm posix.MainThm posix.PosixThm
     posix.ParseThm posix.ParseFull posix.RejectThm posix.RejectFull posix.RejectFull2 posix.RejectFull3 posix.ParseShort posix.ParseDep posix.LocalThm posix.WallThm posix.SpecThm posix.FoldThm.
Import ListNotations.
Open Scope Z_scope.

(* MAIN.  guard r = wf_posix r && guard_apart r && guard_d8 r  (PosixSpec.v):
   wf: alphabetic names, |offsets| < 24 h in whole minutes, Jn 1..365, n 0..365, Mm.w.d ranges,
       rule times 0 .. 167:59:59;
   guard_apart: "start and end at least a month apart and away from the year boundary" (28 days,
       two days + |offsets| from either end of the year, 0 < saving <= 24 h);
   guard_d8: an M-rule's time of day expressed in standard time lies in [0, 86400)  -- outside it
       the statement is FALSE of dateutil (C08_tzstr_posix_d8_refuted, finding F-C08-1).
   For every such rule and EVERY instant u the zone tzstr builds from the parsed rule reports the
   offset, dst saving and abbreviation POSIX prescribes, on the wall reading u + offset. *)
Theorem C08_tzstr_posix : forall r po u,
  guard r = true -> (po = true \/ not_gmt_utc r.(p_name) = true) ->
  exists z f, tzstr_of_res (Ok (Some (ast_of_posix r))) po = Ok z /\
    observe_utc z u = Ok (let '(o, d, n) := posix_observe r u in mkObs (u + o) f o d (Some n)).
Proof. exact tzstr_posix_lemma. Qed.
Print Assumptions C08_tzstr_posix.

(* MAIN with the fold flag pinned: posix_fold r u (FoldThm.v) = "standard time is in force at u
   and daylight time was in force one saving earlier" = u is the LATER of the two instants that
   show the same wall reading (PEP 495).  The complete observable result of
   datetime(u, tzinfo=UTC).astimezone(tzstr) -- wall reading, fold, offset, dst, abbreviation --
   is what POSIX prescribes, for every rule in the guard and every instant. *)
Theorem C08_tzstr_posix_fold : forall r po u,
  guard r = true -> (po = true \/ not_gmt_utc r.(p_name) = true) ->
  exists z, tzstr_of_res (Ok (Some (ast_of_posix r))) po = Ok z /\
    observe_utc z u =
      Ok (let '(o, d, n) := posix_observe r u in mkObs (u + o) (posix_fold r u) o d (Some n)).
Proof. exact tzstr_posix_fold_lemma. Qed.
Print Assumptions C08_tzstr_posix_fold.

(* the executable specification IS the declarative one: latest_event r ds u t b (SpecThm.v) says
   that (t, b) is an event of SOME year (b = true: start, false: end), t <= u, and every event of
   ANY year at or before u is <= t.  Inside guard_apart such a latest event exists and
   posix_isdst r u is its kind -- "daylight time iff the latest event <= u is a start", no
   hemisphere cases, no window of years. *)
Theorem C08_spec_is_declarative : forall r ds,
  r.(p_dst) = Some ds -> wf_posix r = true -> guard_apart r = true ->
  forall u, exists t b, latest_event r ds u t b /\ posix_isdst r u = b.
Proof. exact spec_is_declarative. Qed.
Print Assumptions C08_spec_is_declarative.

(* MAIN (wall readings): wall_instant r w f (PosixSpec.v) is the instant a wall reading with a fold
   flag denotes by PEP 495: the only candidate of a normal reading; of the two candidates of an
   ambiguous reading the earlier one for fold=0 and the later one for fold=1; None for an
   imaginary reading (gap).  Every reading that denotes an instant observes, through tzstr, what
   POSIX prescribes at that instant -- for all wall readings, both folds, same guard. *)
Theorem C08_tzstr_wall_posix : forall r po w f u,
  guard r = true -> (po = true \/ not_gmt_utc r.(p_name) = true) ->
  r.(p_dst) <> None ->
  wall_instant r w f = Some u ->
  exists z, tzstr_of_res (Ok (Some (ast_of_posix r))) po = Ok z /\
    observe_wall z w f = Ok (let '(o, d, n) := posix_observe r u in (o, d, Some n)).
Proof. exact tzstr_wall_posix_lemma. Qed.
Print Assumptions C08_tzstr_wall_posix.

(* the same for ANY zone object (tzstr or tzrange) whose attributes and yearly transitions are
   the rule's: hemisphere-free, all instants *)
Theorem C08_rule_zone_posix : forall r ds,
  r.(p_dst) = Some ds -> wf_posix r = true -> guard_apart r = true ->
  forall z u, zone_for r ds z ->
  exists f, observe_utc z u =
    Ok (let '(o, d, n) := posix_observe r u in mkObs (u + o) f o d (Some n)).
Proof. exact observe_utc_posix. Qed.
Print Assumptions C08_rule_zone_posix.

(* tzrange built from the equivalent offsets and relativedelta keyword rules is the very same
   zone object as tzstr's (hence observes the same, by C08_tzstr_posix) *)
Theorem C08_tzrange_equiv_tzstr : forall r po,
  wf_posix r = true -> (po = true \/ not_gmt_utc r.(p_name) = true) ->
  forall z, tzstr_of_res (Ok (Some (ast_of_posix r))) po = Ok z -> z.(z_hasdst) = true ->
  tzrange_of r = Ok z.
Proof. exact tzrange_equiv_tzstr_lemma. Qed.
Print Assumptions C08_tzrange_equiv_tzstr.

(* D8, rediscovered: outside guard_d8 the faithful model contradicts POSIX *)
Theorem C08_tzstr_posix_d8_refuted :
  exists r u z o,
    wf_posix r = true /\ guard_apart r = true /\ guard_d8 r = false /\
    tzstr_init (render_posix r) false = Ok z /\ observe_utc z u = Ok o /\
    o.(o_off) <> fst (fst (posix_observe r u)).
Proof. exact tzstr_posix_d8_refuted_lemma. Qed.
Print Assumptions C08_tzstr_posix_d8_refuted.

(* a specification without a daylight part is a fixed-offset zone *)
Theorem C08_no_dst_fixed : forall z u,
  z.(z_hasdst) = false ->
  observe_utc z u = Ok (mkObs (u + z.(z_std_off)) false z.(z_std_off) 0 z.(z_std_abbr)).
Proof. exact no_dst_fixed_lemma. Qed.
Print Assumptions C08_no_dst_fixed.

(* 'UTC' / 'GMT' without an offset: fixed zones at offset 0 (a TypeError before /repo fix edf5097) *)
Theorem C08_gmt_utc_without_offset :
  forallb (fun name => fixed_zone_is (tzstr_init name false) name 0 &&
                       fixed_zone_is (tzstr_init name true) name 0) [GMT; UTC] = true.
Proof. exact gmt_utc_bare_lemma. Qed.
Print Assumptions C08_gmt_utc_without_offset.

(* 'GMT+h' / 'UTC+h' are h hours AHEAD of UTC, behind with posix_offset=True (0 <= h < 100:
   every hour the two-digit grammar can write; finite reflection over the stated bound) *)
Theorem C08_gmt_plus_h_reading : forall h, 0 <= h < 100 -> gmt_check h = true.
Proof. exact gmt_plus_h_lemma. Qed.
Print Assumptions C08_gmt_plus_h_reading.


(* negative saving (daylight offset below the standard offset, e.g. the Irish rule): EVERY clause of the
   guard holds except the sign of the saving (guard_apart = guard_distance && p_off < d_off, lemma
   guard_apart_is_distance_and_positive_saving) and the faithful model contradicts POSIX; UTC -> local
   -> UTC does not round-trip (finding F-C08-3) *)
Theorem C08_tzstr_posix_negative_dst_refuted :
  exists r u z o,
    wf_posix r = true /\ guard_d8 r = true /\ guard_distance r = true /\
    (exists ds, r.(p_dst) = Some ds /\ ds.(d_off) < r.(p_off)) /\
    tzstr_init (render_posix r) false = Ok z /\ observe_utc z u = Ok o /\
    o.(o_off) <> fst (fst (posix_observe r u)) /\ o.(o_wall) - o.(o_off) <> u.
Proof. exact tzstr_posix_negative_dst_refuted_lemma. Qed.
Print Assumptions C08_tzstr_posix_negative_dst_refuted.

(* parser round trip, full strength: for EVERY well-formed rule the string render_posix r
   (canonical form: explicit signs, h:mm offsets, /h:mm:ss times, explicit dst offset and rules)
   is tokenised and parsed by the _tzparser model into exactly the rule's AST *)
Theorem C08_tzparse_render : forall r,
  wf_posix r = true -> tzparse (render_posix r) = Ok (Some (ast_of_posix r)).
Proof. exact tzparse_render. Qed.
Print Assumptions C08_tzparse_render.

(* MAIN on the STRING: tz.tzstr(render_posix r) at every instant *)
Theorem C08_tzstr_string_posix : forall r po u,
  guard r = true -> (po = true \/ not_gmt_utc r.(p_name) = true) ->
  exists z f, tzstr_init (render_posix r) po = Ok z /\
    observe_utc z u = Ok (let '(o, d, n) := posix_observe r u in mkObs (u + o) f o d (Some n)).
Proof. exact tzstr_string_posix_lemma. Qed.
Print Assumptions C08_tzstr_string_posix.

(* the SHORT form people write -- 'EST5EDT,M3.2.0,M11.1.0' (render_short, ParseShort.v): whole-hour
   offsets as bare hours with '-' only east of UTC, daylight offset omitted, rule times omitted --
   builds exactly the zone of the canonical string whenever it can express the rule (short_ok:
   offset a whole hour, saving one hour, both times 02:00); all theorems above transfer to it *)
Theorem C08_short_form_same_zone : forall r ds po,
  r.(p_dst) = Some ds -> wf_posix r = true -> short_ok r = true ->
  (po = true \/ not_gmt_utc r.(p_name) = true) ->
  tzstr_init (render_short r ds) po = tzstr_init (render_posix r) po.
Proof. exact short_form_same_zone. Qed.
Print Assumptions C08_short_form_same_zone.

(* the DEPRECATED dateutil-specific comma format (month, week with -1 = last, weekday, seconds;
   render_dep, ParseDep.v), e.g. 'EST+5:00EDT+4:00,3,2,0,7200,11,1,0,7200', of any well-formed rule
   with two Mm.w.d dates builds exactly the zone of the canonical POSIX string *)
Theorem C08_deprecated_form_same_zone : forall nm off dn doff m1 w1 d1 st m2 w2 d2 et po,
  let r := mkPosix nm off (Some (mkDst dn doff (mkPrule (DM m1 w1 d1) st) (mkPrule (DM m2 w2 d2) et))) in
  let ds := mkDst dn doff (mkPrule (DM m1 w1 d1) st) (mkPrule (DM m2 w2 d2) et) in
  wf_posix r = true ->
  tzstr_init (render_dep r ds m1 w1 d1 m2 w2 d2) po = tzstr_init (render_posix r) po.
Proof. exact dep_form_same_zone. Qed.
Print Assumptions C08_deprecated_form_same_zone.

(* malformed strings are rejected with ValueError: the mechanism, for ALL strings *)
Theorem C08_tzstr_rejects_unparsed : forall s po,
  tzparse s = Ok None \/ (exists p, tzparse s = Ok (Some p) /\ p.(r_unused) = true) ->
  tzstr_init s po = Err EValue.
Proof. exact tzstr_rejects_unparsed_lemma. Qed.
Print Assumptions C08_tzstr_rejects_unparsed.

(* three malformed classes for EVERY well-formed rule with a daylight part and both posix_offset
   values: the end rule missing, a surplus '/2' field after the end rule, an unknown character
   ('#') in front of the start rule -- the strings are built from the rule's canonical rendering
   (RejectFull.v: str_missing_end, str_surplus_time, str_unknown_char) *)
Theorem C08_tzstr_rejects_classes : forall r ds po,
  r.(p_dst) = Some ds -> wf_posix r = true ->
  tzstr_init (str_missing_end r ds) po = Err EValue /\
  tzstr_init (str_surplus_time r ds) po = Err EValue /\
  tzstr_init (str_unknown_char r ds) po = Err EValue.
Proof. exact tzstr_rejects_classes. Qed.
Print Assumptions C08_tzstr_rejects_classes.

(* ... and the remaining classes of RejectThm.malformed_variants, again for EVERY well-formed rule
   and both posix_offset values: a third rule, an unknown character ('$') after the start rule,
   a '/' without a time, a surplus '.1' field after the start date, an empty end rule, and an
   M date without its weekday field (any month / week numbers) -- RejectFull2.v, RejectFull3.v *)
Theorem C08_tzstr_rejects_classes2 : forall r ds po,
  r.(p_dst) = Some ds -> wf_posix r = true ->
  tzstr_init (str_surplus_rule r ds) po = Err EValue /\
  tzstr_init (str_dollar r ds) po = Err EValue /\
  tzstr_init (str_slash_no_time r ds) po = Err EValue /\
  tzstr_init (str_surplus_field r ds) po = Err EValue /\
  tzstr_init (str_empty_end r ds) po = Err EValue /\
  (forall m w, 0 <= m < 1000 -> 0 <= w < 1000 ->
     tzstr_init (str_missing_weekday r ds m w) po = Err EValue).
Proof. exact tzstr_rejects_classes2. Qed.
Print Assumptions C08_tzstr_rejects_classes2.

(* POSIX forms OUTSIDE wf_posix (so none of the theorems above speaks about them), on the faithful model:
   the quoted abbreviation '<+03>-3', the offset with seconds 'LMT0:25:21' and the signed rule time
   'EST5EDT,M3.2.0/-1,M11.1.0/2' are rejected with ValueError (open findings F-C08-quoted-names,
   F-C08-offset-seconds, F-C08-signed-rule-time).
   The remaining exclusions of wf_posix are not POSIX strings: unquoted names that are not >= 3 letters,
   rule times >= 168 h (POSIX.1-2024: at most 167).  Saving = 0 is outside guard_apart: differential only. *)
Theorem C08_posix_forms_outside_wf_refuted :
  tzstr_init [60; 43; 48; 51; 62; 45; 51] false = Err EValue /\
  tzstr_init [76; 77; 84; 48; 58; 50; 53; 58; 50; 49] false = Err EValue /\
  tzstr_init [69; 83; 84; 53; 69; 68; 84; 44; 77; 51; 46; 50; 46; 48; 47; 45; 49; 44; 77; 49; 49; 46; 49;
              46; 48; 47; 50] false = Err EValue.
Proof. exact posix_forms_rejected_lemma. Qed.
Print Assumptions C08_posix_forms_outside_wf_refuted.

(* malformed -> ValueError: the deprecated comma format WITHOUT a standard offset and with the trailing
   daylight delta, 'xxx,1,2,3,4,5,6,7,8,9' (it raised TypeError before /repo b3bd589: finding
   F-C08-depcomma-typeerror, fixed) *)
Theorem C08_deprecated_format_without_offset_rejected :
  tzstr_init [120; 120; 120; 44; 49; 44; 50; 44; 51; 44; 52; 44; 53; 44; 54; 44; 55; 44; 56; 44; 57] false
    = Err EValue.
Proof. exact deprecated_without_offset_rejected_lemma. Qed.
Print Assumptions C08_deprecated_format_without_offset_rejected.

(* tzlocal: for ANY C library isdst function, any offsets with altzone <> timezone, and every UTC
   instant, tzlocal reports the C library's answer (offset, dst, abbreviation) on the wall reading
   u + offset ... *)
Theorem C08_tzlocal_faithful_to_libc : forall libc std alt sn dn, alt <> std -> forall u,
  exists f, l_observe_utc libc std alt true sn dn u =
    (u + (if libc u then alt else std), f, if libc u then alt else std,
     if libc u then alt - std else 0, if libc u then dn else sn).
Proof. exact tzlocal_faithful_utc. Qed.
Print Assumptions C08_tzlocal_faithful_to_libc.

(* ... hence what POSIX prescribes, under three EXPLICIT hypotheses (Partial: none of them is proved of
   the real system):
   (H1) libc_implements c r: the C library's localtime() reports tm_isdst / tm_gmtoff / tm_zone of the
        POSIX rule r at every instant (the C library is trusted, compared with real glibc on every run);
   (H2) the saving is positive;
   (H3) exactly one of the two instants tj, tl at which CPython's time module SAMPLES localtime()
        (timemodule.c init_timezone: "January" and "July" of the current year; TzLocalModel.time_module)
        is a daylight instant.
   tzlocal.__init__ reads time.timezone / altzone / daylight / tzname, which time_module computes from
   the two samples.  Without (H2): finding F-C08-4; without (H3): finding F-C08-5 (both refuted below).
   No D8 guard and no distance guard are needed. *)
Theorem C08_tzlocal_posix_partial : forall c r tj tl u,
  libc_implements c r ->
  (forall ds, r.(p_dst) = Some ds -> r.(p_off) < ds.(d_off) /\ posix_isdst r tj <> posix_isdst r tl) ->
  exists f, tzlocal_c_observe_utc c tj tl u =
    (let '(o, d, n) := posix_observe r u in (u + o, f, o, d, n)).
Proof. exact tzlocal_posix_utc_lemma. Qed.
Print Assumptions C08_tzlocal_posix_partial.

(* the hypothesis (H1) is satisfiable: the specification itself is such a C library (the instance the
   correspondence runs) *)
Theorem C08_tzlocal_libc_hypothesis_inhabited : forall r, libc_implements (posix_libc r) r.
Proof. exact posix_libc_implements. Qed.
Print Assumptions C08_tzlocal_libc_hypothesis_inhabited.

(* F-C08-4, as a theorem about the faithful model: (H3) holds, the saving is negative -- the time module
   holds the (smaller, larger) sampled offsets, tzlocal indexes them by tm_isdst and reports the wrong
   offset and abbreviation (TJ_2021 / TL_2021: the samples of a process started in 2021) *)
Theorem C08_tzlocal_negative_dst_refuted :
  exists r u, wf_posix r = true /\
    (exists ds, r.(p_dst) = Some ds /\ ds.(d_off) < r.(p_off)) /\
    posix_isdst r TJ_2021 <> posix_isdst r TL_2021 /\
    let '(_, _, o, _, n) := tzlocal_observe_utc r TJ_2021 TL_2021 u in
    let '(o', _, n') := posix_observe r u in o <> o' /\ n <> n'.
Proof. exact tzlocal_negative_dst_refuted_lemma. Qed.
Print Assumptions C08_tzlocal_negative_dst_refuted.

(* F-C08-5: a rule INSIDE the full guard with a positive saving whose daylight window contains neither
   sample ('EST5EDT,M2.1.0,M5.1.0'): the time module reports daylight = 0 and one offset, tzlocal has no
   daylight time at all and contradicts POSIX (and glibc) inside the window *)
Theorem C08_tzlocal_unsampled_window_refuted :
  exists r u, wf_posix r = true /\ guard_apart r = true /\ guard_d8 r = true /\
    (exists ds, r.(p_dst) = Some ds /\ r.(p_off) < ds.(d_off)) /\
    posix_isdst r TJ_2021 = posix_isdst r TL_2021 /\
    time_module (posix_libc r) TJ_2021 TL_2021 = (r.(p_off), r.(p_off), false, r.(p_name), r.(p_name)) /\
    let '(_, _, o, _, n) := tzlocal_observe_utc r TJ_2021 TL_2021 u in
    let '(o', _, n') := posix_observe r u in o <> o' /\ n <> n'.
Proof. exact tzlocal_unsampled_window_refuted_lemma. Qed.
Print Assumptions C08_tzlocal_unsampled_window_refuted.

(* wall readings through tzlocal under (H1)-(H3): a reading that denotes an instant (normal, or ambiguous
   with its fold: fold=0 the earlier, fold=1 the later instant) observes what POSIX prescribes there *)
Theorem C08_tzlocal_wall_partial : forall c r ds tj tl w f u,
  libc_implements c r ->
  r.(p_dst) = Some ds -> r.(p_off) < ds.(d_off) -> posix_isdst r tj <> posix_isdst r tl ->
  wall_instant r w f = Some u ->
  tzlocal_c_observe_wall c tj tl w f = posix_observe r u.
Proof. exact tzlocal_posix_wall_lemma. Qed.
Print Assumptions C08_tzlocal_wall_partial.

(* ============================================================================================
   REGENERATED-FROM-SOURCE obligations.  coq/gen/PosixGen.v is rewritten by harness/gen_posix.py
   from the Python AST of /repo/src/dateutil/tz/{_common,tz}.py on every run; the theorems below
   say that the regenerated definitions ARE the hand models used by all theorems above, for all
   inputs.  A changed operator, bound, branch or call in the translated methods breaks them; a
   construct outside the translator's accepted subset aborts the translation of that method
   (TRANSLATE-ERROR) and the file stops compiling here.  (The import sits here, not at the top, so
   that the theorems above are still reported as discharged when this part breaks.) *)
From V Require Import posix.PosixGenBase gen.PosixGen posix.PosixGenThm.

(* tz._common.tzrangebase: _dst_base_offset, _naive_isdst, is_ambiguous, _isdst, utcoffset, dst,
   tzname, fromutc; tz.tzrange.transitions *)
Theorem C08_gen_tzrangebase :
  (forall z, gen_dst_base_offset z = dst_base z) /\
  (forall dt a b, gen_naive_isdst dt (a, b) = naive_isdst dt a b) /\
  (forall z y, gen_transitions z y = transitions z y) /\
  (forall z w, gen_is_ambiguous z w = is_ambiguous z w) /\
  (forall z w f, gen_isdst z w f = isdst z w f) /\
  (forall z w f, gen_utcoffset z w f = utcoffset z w f) /\
  (forall z w f, gen_dst z w f = dst z w f) /\
  (forall z w f, gen_tzname z w f = tzname z w f) /\
  (forall z u, gen_fromutc z u = fromutc z u).
Proof. exact gen_tzrangebase_lemma. Qed.
Print Assumptions C08_gen_tzrangebase.

(* tz.tzstr._delta (keyword dictionary -> relativedelta through the call table) *)
Theorem C08_gen_tzstr_delta : forall std_off dst_off x isend,
  gen_tzstr_delta std_off dst_off x isend = tzstr_delta std_off dst_off x isend.
Proof. exact gen_tzstr_delta_eq. Qed.
Print Assumptions C08_gen_tzstr_delta.

(* tz.tzlocal: _naive_is_dst, is_ambiguous, _isdst, utcoffset, dst, tzname *)
Theorem C08_gen_tzlocal : forall libc std alt daylight sn dn w f,
  gen_l_naive_is_dst libc std alt daylight sn dn w = l_naive_is_dst libc std w /\
  gen_l_is_ambiguous libc std alt daylight sn dn w = l_is_ambiguous libc std alt daylight w /\
  gen_l_isdst libc std alt daylight sn dn w f = l_isdst libc std alt daylight w f /\
  gen_l_utcoffset libc std alt daylight sn dn w f = l_utcoffset libc std alt daylight w f /\
  gen_l_dst libc std alt daylight sn dn w f = l_dst libc std alt daylight w f /\
  gen_l_tzname libc std alt daylight sn dn w f = l_tzname libc std alt daylight sn dn w f.
Proof. exact gen_tzlocal_lemma. Qed.
Print Assumptions C08_gen_tzlocal.

(* tz.tzrange.__init__ (offset defaults, default rules, hasdst; a caller-supplied start / end is read
   through PosixGenBase.delta_of_darg) and tz.tzstr.__init__ (parser call, ValueError for unparsed /
   unused tokens, GMT/UTC sign flip, tzrange.__init__(..., start=False, end=False), the two _delta
   calls, hasdst) *)
Theorem C08_gen_tzrange_init : forall sa so da do_ st en,
  gen_tzrange_init sa so da do_ st en = tzrange_init sa so da do_ st en.
Proof. exact gen_tzrange_init_eq. Qed.
Print Assumptions C08_gen_tzrange_init.

Theorem C08_gen_tzstr_init : forall s po, gen_tzstr_init s po = tzstr_init s po.
Proof. exact gen_tzstr_init_eq. Qed.
Print Assumptions C08_gen_tzstr_init.

(* _tzparser.parse, the slices regenerated from source (option monad: an IndexError / ValueError /
   AssertionError inside parse() makes it return None).  The offset after an abbreviation
   (sign, then hhmm / hh:mm / hh): *)
Theorem C08_gen_parse_read_offset : forall l i, gen_read_offset l i = read_offset l i.
Proof. exact gen_read_offset_eq. Qed.
Print Assumptions C08_gen_parse_read_offset.

(* the time of a rule after '/' (hhmm / hh:mm[:ss] / hh) *)
Theorem C08_gen_parse_rule_time : forall l i,
  gen_read_rule_time l i =
  obind (read_hhmm true l (S i)) (fun '(v, i2, u2) => Some (v, i2, [i] ++ u2)).
Proof. exact gen_read_rule_time_eq. Qed.
Print Assumptions C08_gen_parse_rule_time.

(* one pass of `for x in (res.start, res.end)` over a POSIX rule (Jn | Mm.w.d | n) [/time] *)
Theorem C08_gen_parse_posix_rule : forall l i, gen_posix_rule l i = posix_rule l i.
Proof. exact gen_posix_rule_eq. Qed.
Print Assumptions C08_gen_parse_posix_rule.

(* one pass of `for x in (res.start, res.end)` of the deprecated format month,[-]week,day,seconds *)
Theorem C08_gen_parse_dep_rule : forall l i, gen_dep_rule l i = dep_rule l i.
Proof. exact gen_dep_rule_eq. Qed.
Print Assumptions C08_gen_parse_dep_rule.

(* the abbreviation span `while j < len_l and not [x for x in l[j] if x in "0123456789:,-+"]: j += 1`
   (the character class is read from the source) *)
Theorem C08_gen_parse_span_name : forall suffix j, gen_span_name suffix j = span_name suffix j.
Proof. exact gen_span_name_eq. Qed.
Print Assumptions C08_gen_parse_span_name.
