(* C13 -- rrulestr and str(rrule) are inverse; RFC text means the same as keywords.
   Statements only; proofs are in rstr/RstrThm*.v. *)
From Coq Require Import ZArith List Bool.
From V Require Import base.Cal rstr.RstrPrim rstr.RstrModel rstr.RstrSpec rstr.RstrThm.
Import ListNotations.
Open Scope Z_scope.

Theorem C13_empty_valueerror : forall ev o, parse_rfc ev o [] = RErr EValue.
Proof. exact empty_valueerror. Qed.
Print Assumptions C13_empty_valueerror.
