(* C13 -- rrulestr and str(rrule) are inverse; RFC text means the same as keywords.
   Statements only; proofs are in rstr/RstrThm*.v.
   Model: rstr/RstrModel.v (parse_rfc = _rrulestr._parse_rfc, ctor = rrule.__init__ argument
   processing, to_str = rrule.__str__); spec: rstr/RstrSpec.v (spell = all RFC spellings). *)
From Coq Require Import String ZArith List Bool Permutation.
From V Require Import base.Cal rstr.RstrPrim rstr.RstrModel rstr.RstrSpec rstr.RstrThm
  rstr.RstrThmWd rstr.RstrThmParts rstr.RstrThmKw rstr.RstrThmSpell rstr.RstrThmTop rstr.RstrThmStr
  rstr.RstrThmCtor rstr.RstrThmFinal rstr.RstrThmErr rstr.RstrThmSet rstr.RstrThmFold rstr.RstrThmWf rstr.RstrThmFold2 rstr.RstrThmIg rstr.RstrThmTzid rstr.RstrThmCompat rstr.RstrThmTzid2
  rstr.RstrThmSetIg rstr.RstrThmTzid3.
Import ListNotations.
Open Scope Z_scope.

(* str_roundtrip: for every start and keyword arguments the constructor accepts, within
     wf_start_kw: naive valid start (years 1..9999), freq / wkst / weekdays in RFC range, naive until
                  in whole seconds;
     wf_args:     no empty BY tuple, weekday n <> 0 (BYMONTHDAY=0 is a ValueError of the constructor since 55654b4);
     0 <= e_fwd <= 6 and (e_fwd = 0 \/ r_wkst r <> 0):  calendar.firstweekday() is unchanged, or the rule's
                  week start is not MO -- exactly the complement of finding F-C13-c (__str__ omits WKST only
                  when it is 0; the constructor's default is calendar.firstweekday()),
   rrulestr(str(rule)) (default options; cache passes through) is a rule with identical state: start,
   freq, interval, wkst, count, until, every derived BY-field and the recorded original arguments.
   Equal state => equal occurrences is C01's determinism (checked on the real library per case). *)
Theorem C13_str_roundtrip : forall ev o st kw r,
  ctor ev (Some st) kw = Ok r -> 0 <= e_fwd ev <= 6 -> (e_fwd ev = 0 \/ r_wkst r <> 0) ->
  wf_args kw = true -> wf_start_kw st kw = true ->
  o_forceset o = false -> o_compatible o = false -> o_ignoretz o = false -> o_unfold o = false ->
  parse_rfc ev o (to_str r) = RRule (o_cache o) r.
Proof. exact str_roundtrip_args. Qed.
Print Assumptions C13_str_roundtrip.

(* the same with the well-formedness stated on the rule *)
Theorem C13_str_roundtrip_rule : forall ev o st kw r,
  ctor ev (Some st) kw = Ok r -> (e_fwd ev = 0 \/ r_wkst r <> 0) -> wf_args kw = true -> wf_rule r = true ->
  o_forceset o = false -> o_compatible o = false -> o_ignoretz o = false -> o_unfold o = false ->
  parse_rfc ev o (to_str r) = RRule (o_cache o) r.
Proof. exact str_roundtrip. Qed.
Print Assumptions C13_str_roundtrip_rule.

(* until with a fractional second: str() truncates it, everything else is identical *)
Theorem C13_str_roundtrip_until_us : forall ev o st kw r,
  ctor ev (Some st) kw = Ok r -> (e_fwd ev = 0 \/ r_wkst r <> 0) -> wf_args kw = true -> wf_rule (trunc_until r) = true ->
  o_forceset o = false -> o_compatible o = false -> o_ignoretz o = false -> o_unfold o = false ->
  parse_rfc ev o (to_str r) = RRule (o_cache o) (trunc_until r).
Proof. exact str_roundtrip_until_us. Qed.
Print Assumptions C13_str_roundtrip_until_us.

(* the constructor is idempotent on the recorded arguments *)
Theorem C13_ctor_idem : forall ev st kw r, ctor ev (Some st) kw = Ok r -> (e_fwd ev = 0 \/ r_wkst r <> 0) -> wf_args kw = true ->
  ctor ev (Some (r_dtstart r)) (kw_of_rule r) = Ok r.
Proof. exact ctor_idem. Qed.
Print Assumptions C13_ctor_idem.

(* the guards are needed: calendar.firstweekday() <> 0 together with wkst = MO (finding F-C13-c), an
   empty BY tuple, an aware start *)
Theorem C13_str_roundtrip_firstweekday_refuted : exists ev st kw r,
  ctor ev (Some st) kw = Ok r /\ e_fwd ev <> 0 /\ r_wkst r = 0 /\ wf_args kw = true /\ wf_rule r = true /\
  parse_rfc ev o_default (to_str r) <> RRule false r.
Proof. exact str_roundtrip_firstweekday_refuted. Qed.
Print Assumptions C13_str_roundtrip_firstweekday_refuted.

Theorem C13_str_roundtrip_empty_tuple_refuted : exists st kw r,
  ctor ev0 (Some st) kw = Ok r /\ wf_args kw = false /\ parse_rfc ev0 o_default (to_str r) <> RRule false r.
Proof. exact str_roundtrip_empty_tuple_refuted. Qed.
Print Assumptions C13_str_roundtrip_empty_tuple_refuted.

Theorem C13_str_roundtrip_aware_refuted : exists st kw r,
  ctor ev0 (Some st) kw = Ok r /\ dtz st = 1 /\ parse_rfc ev0 o_default (to_str r) <> RRule false r.
Proof. exact str_roundtrip_aware_refuted. Qed.
Print Assumptions C13_str_roundtrip_aware_refuted.

(* rrulestr(str(rule)): the text written by __str__ makes rrulestr call the constructor with the
   rule's start and exactly its recorded original arguments (kw_of_rule). *)
Theorem C13_str_roundtrip_text : forall ev o r, wf_rule r = true ->
  o_forceset o = false -> o_compatible o = false -> o_ignoretz o = false -> o_unfold o = false ->
  parse_rfc ev o (to_str r) = single ev (o_cache o) (Some (r_dtstart r)) (kw_of_rule r).
Proof. exact str_roundtrip_text. Qed.
Print Assumptions C13_str_roundtrip_text.

(* every spelling of the rule value (order of the parts, BYDAY/BYWEEKDAY, '+1MO' / '1MO' / 'MO(+1)' /
   'MO(1)' per member, '+' on positive list members, UNTIL as DATE / DATE-TIME / with Z) is read
   back as exactly the keyword arguments it spells *)
Theorem C13_spelling_value : forall c k, wf_kw k = true -> parse_rrule_kw false (spell_value c k) = Ok k.
Proof. exact spell_value_parse. Qed.
Print Assumptions C13_spelling_value.

(* start passed as dtstart= (or absent), value with or without the 'RRULE:' prefix *)
Theorem C13_spelling_dtstart_option : forall ev o c k, wf_kw k = true ->
  o_forceset o = false -> o_compatible o = false -> o_ignoretz o = false -> o_unfold o = false ->
  parse_rfc ev o ((if c_prefix c then s_RRULEc else []) ++ spell_value c k) = single ev (o_cache o) (o_dtstart o) k.
Proof. exact rrulestr_value. Qed.
Print Assumptions C13_spelling_dtstart_option.

(* inline DTSTART line (plain, ;VALUE=DATE-TIME, ;VALUE=DATE, naive or with Z) *)
Theorem C13_spelling_dtstart_inline : forall ev o c d k, wf_kw k = true ->
  valid_dt d = true -> dus d = 0 -> (dtz d = 0 \/ dtz d = 1) ->
  o_forceset o = false -> o_compatible o = false -> o_ignoretz o = false -> o_unfold o = false ->
  parse_rfc ev o (dtstart_line c [] d ++ [10] ++ (if c_prefix c then s_RRULEc else []) ++ spell_value c k)
  = single ev (o_cache o) (Some d) k.
Proof. exact rrulestr_dtstart_line. Qed.
Print Assumptions C13_spelling_dtstart_inline.

Theorem C13_byday_spellings : forall style w, wf_wd w = true -> parse_wd (wd_spell style w) = Some w.
Proof. exact parse_wd_spell. Qed.
Print Assumptions C13_byday_spellings.

(* the order of distinct parts does not matter *)
Theorem C13_part_order : forall ps ps', Permutation ps ps' -> NoDup (map part_key ps) -> Forall keyok ps ->
  kw_of_parts ps' = kw_of_parts ps.
Proof. exact kw_of_parts_perm. Qed.
Print Assumptions C13_part_order.

(* letter case: everything except the TZID names is upper-cased; texts that agree after upper-casing
   and carry the same TZID names are read identically *)
Theorem C13_case_invariance : forall ev o s s', upper s = upper s' ->
  tzid_findall (join [10] (get_lines (o_unfold o || o_compatible o) s)) =
  tzid_findall (join [10] (get_lines (o_unfold o || o_compatible o) s')) ->
  parse_rfc ev o s = parse_rfc ev o s'.
Proof. exact case_invariance. Qed.
Print Assumptions C13_case_invariance.

Theorem C13_spelling_case : forall ev o mask s,
  tzid_findall (join [10] (get_lines (o_unfold o || o_compatible o) (case_text mask mask s))) =
  tzid_findall (join [10] (get_lines (o_unfold o || o_compatible o) s)) ->
  parse_rfc ev o (case_text mask mask s) = parse_rfc ev o s.
Proof. exact spelling_case. Qed.
Print Assumptions C13_spelling_case.

(* folded lines: whatever the fold positions, splitlines + the unfold loop give back the lines,
   i.e. the lines split() finds in the unfolded text *)
Theorem C13_unfold_fold_lines : forall ps ls, Forall okseg ls ->
  get_lines true (join [10] (map (fold_line ps 0) ls)) = ls.
Proof. exact unfold_fold_lines. Qed.
Print Assumptions C13_unfold_fold_lines.

Theorem C13_folded_lines : forall ps ls, Forall okseg ls ->
  get_lines true (join [10] (map (fold_line ps 0) ls)) = get_lines false (join [10] ls).
Proof. exact folded_lines. Qed.
Print Assumptions C13_folded_lines.

(* the folded spelling at top level: unfold=True, DTSTART line + rule line folded at any positions *)
Theorem C13_spelling_folded : forall ev o c d k ps, wf_kw k = true ->
  valid_dt d = true -> dus d = 0 -> (dtz d = 0 \/ dtz d = 1) ->
  o_forceset o = false -> o_compatible o = false -> o_ignoretz o = false -> o_unfold o = true ->
  parse_rfc ev o (join [10] (map (fold_line ps 0)
     [dtstart_line c [] d; (if c_prefix c then s_RRULEc else []) ++ spell_value c k]))
  = single ev (o_cache o) (Some d) k.
Proof. exact rrulestr_folded. Qed.
Print Assumptions C13_spelling_folded.

(* spelling_invariance, all choices at once for an inline DTSTART (without TZID parameter): order of
   parts, BYDAY/BYWEEKDAY and the four member forms, '+' signs, DATE / DATE-TIME / Z, VALUE=,
   'RRULE:' prefix, fold positions, letter case: rrulestr returns what the keyword constructor returns.
   (Side condition: lower-casing does not change the collected TZID names, e.g. there is none.) *)
Theorem C13_spelling_invariance : forall ev o c d k, wf_kw k = true ->
  valid_dt d = true -> dus d = 0 -> (dtz d = 0 \/ dtz d = 1) -> c_inline c <> 0 ->
  o_forceset o = false -> o_compatible o = false -> o_ignoretz o = false -> o_unfold o = true ->
  let folded := join [10] (map (fold_line (c_folds c) 0) (spell_lines c [] (Some d) k)) in
  tzid_findall (join [10] (get_lines true (case_text (c_case c) (c_case c) folded))) =
  tzid_findall (join [10] (get_lines true folded)) ->
  parse_rfc ev o (spell c [] (Some d) k) = single ev (o_cache o) (Some d) k.
Proof. exact spelling_invariance. Qed.
Print Assumptions C13_spelling_invariance.

(* inline DTSTART with a TZID parameter: the regex collects exactly the name, the zone tzids gives for
   it is applied to the naive value; every spelling of the rule value as above *)
Theorem C13_spelling_tzid : forall ev o c d k name tag, wf_kw k = true ->
  valid_dt d = true -> dus d = 0 -> dtz d = 0 ->
  name <> [] -> forallb namec name = true -> tz_get (o_tzids o) name = tag -> tag <> 0 ->
  o_forceset o = false -> o_compatible o = false -> o_ignoretz o = false -> o_unfold o = false ->
  parse_rfc ev o (s_DTSTART ++ s_TZIDparm ++ name ++ 58 :: dt_spell (c_dshort c) d ++ 10 ::
                  (if c_prefix c then s_RRULEc else []) ++ spell_value c k)
  = single ev (o_cache o) (Some (with_tz d tag)) k.
Proof. exact rrulestr_tzid. Qed.
Print Assumptions C13_spelling_tzid.

(* the same folded at any positions, also inside the TZID parameter (unfold=True; formerly F-C13-d) *)
Theorem C13_spelling_tzid_folded : forall ev o c d k name tag ps, wf_kw k = true ->
  valid_dt d = true -> dus d = 0 -> dtz d = 0 ->
  name <> [] -> forallb namec name = true -> tz_get (o_tzids o) name = tag -> tag <> 0 ->
  o_forceset o = false -> o_compatible o = false -> o_ignoretz o = false -> o_unfold o = true ->
  parse_rfc ev o (join [10] (map (fold_line ps 0)
     [s_DTSTART ++ s_TZIDparm ++ name ++ 58 :: dt_spell (c_dshort c) d;
      (if c_prefix c then s_RRULEc else []) ++ spell_value c k]))
  = single ev (o_cache o) (Some (with_tz d tag)) k.
Proof. exact rrulestr_tzid_folded. Qed.
Print Assumptions C13_spelling_tzid_folded.

Theorem C13_tzid_names : forall pre name rest, nolower pre -> noTZ (pre ++ [84]) = true -> name <> [] ->
  nodelim name = true -> nolower rest -> noTZ rest = true ->
  tzid_findall (pre ++ s_TZIDeq ++ name ++ 58 :: rest) = [name].
Proof. exact tzid_findall_one. Qed.
Print Assumptions C13_tzid_names.

(* general form: optional VALUE=DATE-TIME parameter BEFORE the TZID parameter, the keyword TZID in
   any letter case (395419a) *)
Theorem C13_spelling_tzid_general : forall ev o c d k name tag vp k0 k1 k2 k3, wf_kw k = true ->
  valid_dt d = true -> dus d = 0 -> dtz d = 0 ->
  name <> [] -> forallb namec name = true -> tz_get (o_tzids o) name = tag -> tag <> 0 ->
  kwd_ok k0 k1 k2 k3 ->
  o_forceset o = false -> o_compatible o = false -> o_ignoretz o = false -> o_unfold o = false ->
  parse_rfc ev o (s_DTSTART ++ vtext vp ++ 59 :: [k0; k1; k2; k3; 61] ++ name ++ 58 :: dt_spell (c_dshort c) d
                  ++ 10 :: (if c_prefix c then s_RRULEc else []) ++ spell_value c k)
  = single ev (o_cache o) (Some (with_tz d tag)) k.
Proof. exact rrulestr_tzid_general. Qed.
Print Assumptions C13_spelling_tzid_general.

Theorem C13_tzid_names_anycase : forall pre k0 k1 k2 k3 name d rest, nolower pre -> noTZ (pre ++ [84]) = true ->
  kwd_ok k0 k1 k2 k3 -> name <> [] -> nodelim name = true -> d = 58 \/ d = 59 -> nolower rest -> noTZ rest = true ->
  tzid_findall (pre ++ [k0; k1; k2; k3; 61] ++ name ++ d :: rest) = [name].
Proof. exact tzid_findall_kw. Qed.
Print Assumptions C13_tzid_names_anycase.

(* TZID on an EXDATE line (optionally after VALUE=DATE-TIME): every value in that zone *)
Theorem C13_exdate_tzid : forall o names name tag vp short ds a,
  forallb namec name = true -> tzid_lookup names (upper name) = Some name ->
  tz_get (o_tzids o) name = tag -> tag <> 0 -> o_ignoretz o = false ->
  ds <> [] -> forallb naive_date ds = true ->
  do_line o names (s_EXDATE ++ vtext vp ++ 59 :: s_TZIDeq ++ upper name ++ 58 :: dates_text short ds) a =
  Ok (mkacc (a_rr a) (a_rd a) (a_xr a) (a_xd a ++ map (fun d => with_tz d tag) ds) (a_start a)).
Proof. exact do_line_exdate_tzid. Qed.
Print Assumptions C13_exdate_tzid.

(* TZID FOLLOWED by VALUE=DATE-TIME (formerly finding F-C13-f, fixed by 5fe9b57: the name ends at the
   first ':' or ';'): the zone is kept, keyword in any letter case *)
Theorem C13_spelling_tzid_value_after : forall ev o c d k name tag k0 k1 k2 k3, wf_kw k = true ->
  valid_dt d = true -> dus d = 0 -> dtz d = 0 ->
  name <> [] -> forallb namec name = true -> tz_get (o_tzids o) name = tag -> tag <> 0 ->
  kwd_ok k0 k1 k2 k3 ->
  o_forceset o = false -> o_compatible o = false -> o_ignoretz o = false -> o_unfold o = false ->
  parse_rfc ev o (s_DTSTART ++ 59 :: [k0; k1; k2; k3; 61] ++ name ++ s_VALUEDTparm ++ 58 :: dt_spell (c_dshort c) d
                  ++ 10 :: (if c_prefix c then s_RRULEc else []) ++ spell_value c k)
  = single ev (o_cache o) (Some (with_tz d tag)) k.
Proof. exact rrulestr_tzid_value_after. Qed.
Print Assumptions C13_spelling_tzid_value_after.

(* the former witness of F-C13-f, now positive: both parameter orders (and EXDATE) keep the zone *)
Theorem C13_tzid_followed_by_parameter :
  let o := mkopts None false false false false false [(zs "Europe/Berlin", 3)] in
  let ev := mkenv 0 (mkdt 2000 1 1 0 0 0 0 0) in
  (exists r, parse_rfc ev o (zs "DTSTART;VALUE=DATE-TIME;TZID=Europe/Berlin:19970902T090000
RRULE:FREQ=DAILY;COUNT=2") = RRule false r /\ dtz (r_dtstart r) = 3) /\
  (exists r, parse_rfc ev o (zs "DTSTART;TZID=Europe/Berlin;VALUE=DATE-TIME:19970902T090000
RRULE:FREQ=DAILY;COUNT=2") = RRule false r /\ dtz (r_dtstart r) = 3) /\
  (exists xd, parse_rfc ev o (zs "EXDATE;TZID=Europe/Berlin;VALUE=DATE-TIME:19970902T090000") = RSet false [] [] [] xd
              /\ map dtz xd = [3]).
Proof. exact tzid_followed_by_parameter. Qed.
Print Assumptions C13_tzid_followed_by_parameter.

(* TZID parameter, at the level of _parse_date_value: the zone found through tzids is applied to a
   naive value, and a value with Z is rejected with ValueError.  *)
Theorem C13_tzid_param : forall o names name tag short d,
  has_char 61 (upper name) = false ->
  tzid_lookup names (upper name) = Some name -> tz_get (o_tzids o) name = tag -> tag <> 0 ->
  o_ignoretz o = false ->
  valid_dt d = true -> dus d = 0 -> dtz d = 0 ->
  parse_date_value o names (dt_spell short d) [s_TZIDeq ++ upper name] =
  Ok [mkdt (dy d) (dmo d) (dd d) (dh d) (dmi d) (ds d) (dus d) tag].
Proof. exact tzid_param_partial. Qed.
Print Assumptions C13_tzid_param.

Theorem C13_tzid_param_twice_valueerror : forall o names name tag short d,
  has_char 61 (upper name) = false ->
  tzid_lookup names (upper name) = Some name -> tz_get (o_tzids o) name = tag -> tag <> 0 ->
  o_ignoretz o = false ->
  valid_dt d = true -> dus d = 0 -> dtz d = 1 ->
  parse_date_value o names (dt_spell short d) [s_TZIDeq ++ upper name] = Err EValue.
Proof. exact tzid_param_twice_valueerror. Qed.
Print Assumptions C13_tzid_param_twice_valueerror.

(* ignoretz=True at whole-text level (set-assembly model): the set has the same members by role,
   every RDATE / EXDATE / DTSTART value is the naive reading, every rule line is parsed with ignoretz
   (and then C13_ignoretz_kw / C13_member_rule_ignoretz say what that gives) *)
Theorem C13_set_assembly_ignoretz : forall ev o short its rr xr,
  its <> [] -> forallb wf_item its = true ->
  o_ignoretz o = true -> o_compatible o = false -> o_unfold o = false ->
  match o_dtstart o with Some d => dtz d = 0 | None => True end ->
  let start := option_map untz (start_of its (o_dtstart o)) in
  (o_forceset o || (1 <? Z.of_nat (List.length (rules_of its))) || negb (isnil (rdates_of its))
   || negb (isnil (exrules_of its)) || negb (isnil (exdates_of its))) = true ->
  parse_rules ev true start (rules_of its) = Ok rr ->
  parse_rules ev true start (exrules_of its) = Ok xr ->
  parse_rfc ev o (join [10] (map (render_item short) its)) =
  RSet (o_cache o) rr (map untz (concat (rdates_of its))) xr (map untz (exdates_of its)).
Proof. exact set_assembly_text_ignoretz. Qed.
Print Assumptions C13_set_assembly_ignoretz.

Theorem C13_set_members_ignoretz : forall ev o names short its rr xr,
  forallb wf_item its = true -> o_ignoretz o = true ->
  match o_dtstart o with Some d => dtz d = 0 | None => True end ->
  let fs := o_forceset o || o_compatible o in
  let start := option_map untz (start_of its (o_dtstart o)) in
  (fs || (1 <? Z.of_nat (List.length (rules_of its))) || negb (isnil (rdates_of its))
   || negb (isnil (exrules_of its)) || negb (isnil (exdates_of its))) = true ->
  parse_rules ev true start (rules_of its) = Ok rr ->
  parse_rules ev true start (exrules_of its) = Ok xr ->
  general ev o fs names (map (render_item short) its) =
  RSet (o_cache o) rr
       (map untz (concat (rdates_of its)) ++
        (if o_compatible o then match start with Some d => [d] | None => [] end else []))
       xr (map untz (exdates_of its)).
Proof. exact set_assembly_ignoretz. Qed.
Print Assumptions C13_set_members_ignoretz.

Theorem C13_member_rule_ignoretz : forall ev line st k, parse_rrule_kw false line = Ok k ->
  parse_rule ev true line st =
  (if isNone (k_freq k) then Err EValue else catch (ctor ev st (untz_kw k)) [EOverflow] EValue).
Proof. exact parse_rule_ignoretz. Qed.
Print Assumptions C13_member_rule_ignoretz.

(* ignoretz=True: the same rule parts, UNTIL without its zone *)
Theorem C13_ignoretz_kw : forall line k,
  parse_rrule_kw false line = Ok k -> parse_rrule_kw true line = Ok (untz_kw k).
Proof. exact ignoretz_kw. Qed.
Print Assumptions C13_ignoretz_kw.

(* multi-line input: exactly the listed members in their roles (RRULE / RDATE / EXRULE / EXDATE /
   DTSTART lines in any order); forceset makes a set of a single rule *)
Theorem C13_set_assembly : forall ev o short its rr xr,
  its <> [] -> forallb wf_item its = true ->
  o_ignoretz o = false -> o_compatible o = false -> o_unfold o = false ->
  (o_forceset o || (1 <? Z.of_nat (List.length (rules_of its))) || negb (isnil (rdates_of its))
   || negb (isnil (exrules_of its)) || negb (isnil (exdates_of its))) = true ->
  parse_rules ev false (start_of its (o_dtstart o)) (rules_of its) = Ok rr ->
  parse_rules ev false (start_of its (o_dtstart o)) (exrules_of its) = Ok xr ->
  parse_rfc ev o (join [10] (map (render_item short) its)) =
  RSet (o_cache o) rr (concat (rdates_of its)) xr (exdates_of its).
Proof. exact set_assembly_text. Qed.
Print Assumptions C13_set_assembly.

(* unfold=True / compatible=True at text level: compatible forces a set and adds the start to
   the rdates ("RRULE:..." alone becomes a one-rule set) *)
Theorem C13_set_assembly_unfold_compatible : forall ev o short its rr xr,
  its <> [] -> forallb wf_item its = true -> o_ignoretz o = false ->
  (o_unfold o || o_compatible o) = true ->
  (o_forceset o || o_compatible o || (1 <? Z.of_nat (List.length (rules_of its))) || negb (isnil (rdates_of its))
   || negb (isnil (exrules_of its)) || negb (isnil (exdates_of its))) = true ->
  parse_rules ev false (start_of its (o_dtstart o)) (rules_of its) = Ok rr ->
  parse_rules ev false (start_of its (o_dtstart o)) (exrules_of its) = Ok xr ->
  parse_rfc ev o (join [10] (map (render_item short) its)) =
  RSet (o_cache o) rr
       (concat (rdates_of its) ++
        (if o_compatible o then match start_of its (o_dtstart o) with Some d => [d] | None => [] end else []))
       xr (exdates_of its).
Proof. exact set_assembly_unfold. Qed.
Print Assumptions C13_set_assembly_unfold_compatible.

(* the same after the property loop for any way of obtaining the lines, incl. compatible=True
   (which adds the start to the rdates) *)
Theorem C13_set_members : forall ev o names short its rr xr,
  forallb wf_item its = true -> o_ignoretz o = false ->
  let fs := o_forceset o || o_compatible o in
  (fs || (1 <? Z.of_nat (List.length (rules_of its))) || negb (isnil (rdates_of its))
   || negb (isnil (exrules_of its)) || negb (isnil (exdates_of its))) = true ->
  parse_rules ev false (start_of its (o_dtstart o)) (rules_of its) = Ok rr ->
  parse_rules ev false (start_of its (o_dtstart o)) (exrules_of its) = Ok xr ->
  general ev o fs names (map (render_item short) its) =
  RSet (o_cache o) rr
       (concat (rdates_of its) ++
        (if o_compatible o then match start_of its (o_dtstart o) with Some d => [d] | None => [] end else []))
       xr (exdates_of its).
Proof. exact set_assembly. Qed.
Print Assumptions C13_set_members.

(* unknown or malformed parts raise ValueError.  The model keeps one constructor per Python exception
   class: an unknown part name is an AttributeError of getattr, turned into ValueError by the first
   except clause of _parse_rfc_rrule (catch_pair = the two except clauses) *)
Theorem C13_unknown_part_valueerror : forall ig name value kw, known name = false ->
  handle ig name value kw = Err EAttr /\ catch_pair (handle ig name value kw) = Err EValue.
Proof. intros. split; [apply unknown_part_attributeerror|apply unknown_part_valueerror]; assumption. Qed.
Print Assumptions C13_unknown_part_valueerror.

(* every class a _handle_* method can raise is one of those the except clauses catch: ValueError (int(),
   weekday(n=0), the empty BYDAY member, UNTIL after its own except (ValueError, OverflowError)), KeyError
   (_freq_map / _weekday_map), AttributeError (no such handler) -- never IndexError / OverflowError / TypeError *)
Theorem C13_handler_classes : forall ig name value kw e, handle ig name value kw = Err e ->
  e = EValue \/ e = EKey \/ e = EAttr \/ e = EUnmodelled.
Proof. exact handle_err. Qed.
Print Assumptions C13_handler_classes.

(* the constructor raises TypeError (no freq: unreachable from rrulestr since ec791d5), ValueError, or
   OverflowError (datetime.time() with an hour / minute / second beyond 32 bits; caught since fb1f638) *)
Theorem C13_ctor_error_classes : forall ev st kw e, ctor ev st kw = Err e ->
  (e = EType /\ k_freq kw = None) \/ ((e = EValue \/ e = EOverflow) /\ k_freq kw <> None).
Proof. exact ctor_err. Qed.
Print Assumptions C13_ctor_error_classes.

Theorem C13_parts_accepted_are_known : forall ig ps kw kw', handle_pairs ig ps kw = Ok kw' ->
  Forall (fun p => exists name value, split_on 61 p = [name; value] /\ known (upper name) = true) ps.
Proof. exact handle_pairs_ok_known. Qed.
Print Assumptions C13_parts_accepted_are_known.

(* malformed text: whatever rrulestr is given (ASCII, date values of the compact forms), an error is
   a ValueError -- never TypeError / IndexError / KeyError / AttributeError / OverflowError.  The proof
   goes through the except clauses of the model (C13_handler_classes, C13_ctor_error_classes, the
   OverflowError of an overlong digit string in UNTIL / a date value); C13_gen_error_classes below states
   it on the regenerated code.  (EUnmodelled = the text leaves the modelled fragment; the implementation
   is then checked directly.)  Unguarded since ec791d5 (missing FREQ), a8bd79d (no RRULE line), fb1f638. *)
Theorem C13_rrulestr_error_classes : forall ev o s e, parse_rfc ev o s = RErr e -> ev_or_unmodelled e.
Proof. exact rrulestr_error_classes. Qed.
Print Assumptions C13_rrulestr_error_classes.

Theorem C13_rule_error_classes : forall ev ig line st e, parse_rule ev ig line st = Err e -> ev_or_unmodelled e.
Proof. exact parse_rule_err. Qed.
Print Assumptions C13_rule_error_classes.

Theorem C13_empty_valueerror : forall ev o, parse_rfc ev o [] = RErr EValue.
Proof. exact empty_valueerror. Qed.
Print Assumptions C13_empty_valueerror.

(* ------------------------------------------------------------------------------------------------
   Regenerated model: coq/gen/RstrGen.v is produced on every run by harness/gen_rstr.py from the
   Python AST of /repo/src/dateutil/rrule.py (fail-closed; accepted subset and call table in its
   header and in notes/rstr.md).  The theorems below say that the translated code IS the hand model
   the theorems above are about.  A change of the translated methods changes gen_* and breaks these
   obligations; a change outside the accepted subset aborts the translator and poisons RstrGen.v.
   Exception classes are kept apart on both sides (gres_res / g_of_res / result_of_gres are one to one), so
   these equalities depend on every except clause of the translated code. *)
From V Require Import rstr.RstrGenBase gen.RstrGen rstr.RstrGenThm rstr.RstrGenThm2.

(* _freq_map / _weekday_map (dict literals of the class) and FREQNAMES *)
Theorem C13_gen_tables : (forall v, g_lookup tbl_freq_map v = match freq_of v with Some f => GOk f | None => GExc XKey end)
  /\ (forall v, g_lookup tbl_weekday_map v = match wday_of v with Some f => GOk f | None => GExc XKey end)
  /\ tblFREQNAMES = freq_names.
Proof. exact (conj tbl_freq_map_spec (conj tbl_weekday_map_spec eq_refl)). Qed.
Print Assumptions C13_gen_tables.

(* one BYDAY member as _handle_BYWEEKDAY reads it (the '(' form, the index scan, weekdays[..](n)) *)
Theorem C13_gen_handle_BYWEEKDAY : forall ig name value kw,
  gres_res (gen_handle_BYWEEKDAY ig name value kw) =
  match wd_list value with Some l => Ok (set_byweekday l kw) | None => Err (wd_list_class value) end.
Proof. exact gen_handle_BYWEEKDAY_spec. Qed.
Print Assumptions C13_gen_handle_BYWEEKDAY.

(* getattr(self, "_handle_" + name)(...) for every upper-cased name: _handle_int, _handle_int_list,
   _handle_FREQ, _handle_WKST, _handle_UNTIL, _handle_BYWEEKDAY and the alias table *)
Theorem C13_gen_dispatch : forall ig n value kw,
  gres_res (gen_dispatch ig (upper n) value kw) = handle ig (upper n) value kw.
Proof. exact gen_dispatch_spec. Qed.
Print Assumptions C13_gen_dispatch.

(* _parse_rfc_rrule up to the constructor call *)
Theorem C13_gen_parse_rfc_rrule : forall ig line,
  gres_res (gen_parse_rfc_rrule ig line) =
  match parse_rrule_kw ig line with
  | Ok kw => if isNone (k_freq kw) then Err EValue else Ok kw
  | Err e => Err e
  end.
Proof. exact gen_parse_rfc_rrule_spec. Qed.
Print Assumptions C13_gen_parse_rfc_rrule.

Theorem C13_gen_parse_rule : forall ev ig line st,
  parse_rule ev ig line st =
  match gres_res (gen_parse_rfc_rrule ig line) with
  | Ok kw => catch (ctor ev st kw) [EOverflow] EValue | Err e => Err e end.
Proof. exact gen_parse_rule_spec. Qed.
Print Assumptions C13_gen_parse_rule.

(* the translated call rrule(...) with its except clause (gen_rule) is that rule *)
Theorem C13_gen_rule : forall ev ig line st, gres_res (gen_rule ev ig line st) = parse_rule ev ig line st.
Proof. exact gen_rule_spec. Qed.
Print Assumptions C13_gen_parse_rule.

(* rrule.__str__ *)
Theorem C13_gen_to_str : forall r, gen_to_str r = to_str r.
Proof. exact gen_to_str_spec. Qed.
Print Assumptions C13_gen_to_str.

(* _parse_date: parser.parse with OverflowError (an overlong digit string) turned into ValueError *)
Theorem C13_gen_parse_date : forall ig x, gres_res (gen_parse_date ig x) = parse_date_method ig x.
Proof. exact gen_parse_date_spec. Qed.
Print Assumptions C13_gen_parse_date.

(* _parse_date_value: the parameter loop (TZID= looked up in the names found by the TZID regex, KeyError
   skipped, the zone lookup, VALUE= once) and the loop over the comma separated dates (a zone on the
   line and a zone in the date text together are a ValueError) *)
Theorem C13_gen_parse_date_value : forall o names v parms,
  gen_parse_date_value o names v parms = g_of_res (parse_date_value o names v parms).
Proof. exact gen_parse_date_value_spec. Qed.
Print Assumptions C13_gen_parse_date_value.

(* _parse_rfc as a whole: compatible / forceset / unfold flags, the "empty string" test, the unfold
   loop (recognised verbatim, = unfold_lines o splitlines) or split(), the TZID regex (recognised
   verbatim, = tzid_findall), upper-casing, the single-rule shortcut, the property loop over the
   lines with its four value lists and DTSTART, and the rruleset assembly (rules, rdates, exrules,
   exdates, compatible's extra rdate) or the single rule.  The is_ascii guard is the model's own. *)
Theorem C13_gen_parse_rfc : forall ev o s, forallb is_ascii s = true ->
  result_of_gres (gen_parse_rfc ev o s) = parse_rfc ev o s.
Proof. exact gen_parse_rfc_spec. Qed.
Print Assumptions C13_gen_parse_rfc.

(* the error classes of the REGENERATED rrulestr: a ValueError, or the text left the modelled fragment.
   Depends on every handler of the translated code: _handle_UNTIL's (ValueError, OverflowError), the two
   except clauses around the handler call, the one around rrule(...), _parse_date's OverflowError. *)
Theorem C13_gen_error_classes : forall ev o s e, forallb is_ascii s = true ->
  gen_parse_rfc ev o s = GExc e -> e = XValue \/ e = XUnm.
Proof. exact gen_error_classes. Qed.
Print Assumptions C13_gen_error_classes.

(* ------------------------------------------------------------------------------------------------
   "the same occurrences": bridge to C01's model (coq/rstr/RstrBridge.v; depends on the hand-written
   coq/rr/RRBase.v, RRNorm.v only).  rstr's constructor model `ctor` and rr's `RRNorm.normalize` -- which
   C01 proves equal to the code regenerated from rrule.__init__ (C01_gen_init_is_model) and about whose
   result C01's iteration theorems speak -- agree on every start and keyword record the constructor
   accepts (raw_of reads the keyword record as rr's argument record; it generalises
   link/LinkChain.raw_of_kw to all rules, incl. UNTIL and the week start default).  Hence equal rstr
   rule state => equal RRNorm rule => equal result of every function of it, in particular of
   RRIter.iterate; and the round trip of C13_str_roundtrip is a statement about occurrences. *)
From V Require rr.RRBase rr.RRNorm rstr.RstrBridge.

Theorem C13_bridge_ctor_is_normalize : forall ev st kw r, ctor ev (Some st) kw = Ok r -> dd st <> 0 ->
  exists raw, RstrBridge.raw_of ev st kw = Some raw /\ RRNorm.normalize raw = RRBase.Ok (RstrBridge.rule_of r).
Proof. exact RstrBridge.ctor_is_normalize. Qed.
Print Assumptions C13_bridge_ctor_is_normalize.

Theorem C13_bridge_same_state_same_occurrences : forall ev st kw st' kw' r,
  ctor ev (Some st) kw = Ok r -> ctor ev (Some st') kw' = Ok r -> dd st <> 0 -> dd st' <> 0 ->
  exists raw raw' rl rl',
    RstrBridge.raw_of ev st kw = Some raw /\ RstrBridge.raw_of ev st' kw' = Some raw' /\
    RRNorm.normalize raw = RRBase.Ok rl /\ RRNorm.normalize raw' = RRBase.Ok rl' /\ rl = rl' /\
    forall (A : Type) (iterate : RRNorm.rule -> A), iterate rl = iterate rl'.
Proof. exact RstrBridge.same_state_same_occurrences. Qed.
Print Assumptions C13_bridge_same_state_same_occurrences.

(* C13_str_roundtrip, as occurrences in C01's model *)
Theorem C13_str_roundtrip_occurrences : forall ev o st kw r,
  ctor ev (Some st) kw = Ok r -> 0 <= e_fwd ev <= 6 -> (e_fwd ev = 0 \/ r_wkst r <> 0) ->
  wf_args kw = true -> wf_start_kw st kw = true ->
  o_forceset o = false -> o_compatible o = false -> o_ignoretz o = false -> o_unfold o = false ->
  exists r2 raw raw2 rl rl2,
    parse_rfc ev o (to_str r) = RRule (o_cache o) r2 /\
    RstrBridge.raw_of ev st kw = Some raw /\ RstrBridge.raw_of ev (r_dtstart r) (kw_of_rule r) = Some raw2 /\
    ctor ev (Some (r_dtstart r)) (kw_of_rule r) = Ok r2 /\
    RRNorm.normalize raw = RRBase.Ok rl /\ RRNorm.normalize raw2 = RRBase.Ok rl2 /\
    rl = RstrBridge.rule_of r /\ rl2 = RstrBridge.rule_of r2 /\
    forall (A : Type) (iterate : RRNorm.rule -> A), iterate rl = iterate rl2.
Proof. exact RstrBridge.str_roundtrip_occurrences. Qed.
Print Assumptions C13_str_roundtrip_occurrences.
