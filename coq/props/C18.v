(* C18 -- zone factories return one shared object per key, safely under threads.
   Statements only; proofs are in coq/factory/*.v.  The transition system `step` (FacModel.v)
   mirrors _factories.py / GettzFunc at statement granularity; `run (init progs) sched` executes
   an arbitrary schedule (list of thread ids) of arbitrary per-thread programs. *)
From Coq Require Import ZArith List Bool.
From V Require Import factory.FacModel factory.FacSpec factory.FacObs factory.FacEq factory.FacEqThm
  factory.FacLock factory.FacLock2 factory.FacRefute factory.FacThm factory.FacThm2 factory.FacThm3 factory.FacThm4 factory.FacProg factory.FacFresh
  factory.FacEqGenBase gen.FacEqGen factory.FacEqGenThm factory.FacCfg gen.FacCfgGen factory.FacCfgThm
  factory.FacFixed gen.FixedGen factory.FacFixedThm.
From V Require tzfile.TzModel.
Import ListNotations.
Open Scope Z_scope.

(* ---- identity: for ALL programs and ALL schedules the identities returned satisfy the spec:
   a later call for the same (factory, key, cache epoch) returns the object of an earlier call
   whenever a client still references that object. *)
Theorem C18_factory_identity : forall progs sched,
  spec_identity (obs_of_log (log (run (init progs) sched))) = true.
Proof. exact factory_identity_lemma. Qed.
Print Assumptions C18_factory_identity.

(* the same, spelled out on the observation list (newest first) *)
Theorem C18_factory_identity_explicit : forall progs sched later r earlier r',
  obs_of_log (log (run (init progs) sched)) = later ++ r :: earlier ->
  In r' earlier -> o_fac r' = o_fac r -> o_key r' = o_key r -> o_epoch r' = o_epoch r ->
  In (o_obj r') (o_held r) -> o_obj r = o_obj r'.
Proof. exact factory_identity_explicit_lemma. Qed.
Print Assumptions C18_factory_identity_explicit.

(* RESTRICTION (stated with the property's wording): "gettz with the same name ... returns that very
   object" is proved, and demanded of the implementation, only for names whose zone gettz CACHES.
   By design (tz.py GettzFunc.__call__: "no caching of local zones or None") a name that resolves to
   a tzlocal(), to no zone (None), or the call gettz() without a name is returned uncached: those
   returns are the model's EUncached events, they are not observations of the spec, and no identity
   is claimed for them.  Same for the cache epoch: identity across gettz.cache_clear() is refuted
   (C18_retention_cache_clear_refuted, finding F-C18-a). *)

(* ---- a call that reaches its `return` returns an object, hands it to the client and is observed:
   no factory call of the model finishes without a result *)
Theorem C18_call_returns : forall progs sched t th,
  let s := run (init progs) sched in
  nth_error (thrs s) t = Some th -> tpc th = PRet ->
  exists f k kd slot rest o,
    prog th = OCall f k kd slot :: rest /\ nested th = false /\ inst th = Some o /\
    step s t = Some (add_log (set_refs (set_thr s t (t_done th)) (set_slot (refs s) slot (Some o)))
                             (ERet t f k o (tep th) (map snd (refs s)))).
Proof. exact call_returns_lemma. Qed.
Print Assumptions C18_call_returns.

(* ---- never two different live objects for one key (alive = any strong reference: client,
   strong cache, a running call's local) *)
Theorem C18_no_two_live_objects_per_key : forall progs sched t1 t2 f k e o1 o2 h1 h2,
  let s := run (init progs) sched in
  In (ERet t1 f k o1 e h1) (log s) -> In (ERet t2 f k o2 e h2) (log s) ->
  alive s o1 = true -> alive s o2 = true -> o1 = o2.
Proof. exact no_two_live_lemma. Qed.
Print Assumptions C18_no_two_live_objects_per_key.

Theorem C18_no_two_live_bound_objects_per_key : forall progs sched t1 t2 f k e o1 o2,
  let s := run (init progs) sched in
  In (EBind t1 f k o1 e) (log s) -> In (EBind t2 f k o2 e) (log s) ->
  alive s o1 = true -> alive s o2 = true -> o1 = o2.
Proof. exact no_two_live_bound_lemma. Qed.
Print Assumptions C18_no_two_live_bound_objects_per_key.

(* ---- retention only.  FULL statement demanded by the property text:
       forall progs sched, spec_identity_strict (obs_of_log (log (run (init progs) sched))) = true
   (identity regardless of cache_clear / set_cache_size / eviction).  It is FALSE of the faithful
   model because of gettz.cache_clear (C18_retention_cache_clear_refuted, finding F-C18-a).
   Proved with the guard "no cache_clear in the programs": set_cache_size (any size, also 0 and
   negative) and LRU eviction never change which object a call returns while a client holds it. *)
Theorem C18_retention_only_guarded : forall progs sched,
  (forall p, In p progs -> ~ In OClear p) ->
  spec_identity_strict (obs_of_log (log (run (init progs) sched))) = true.
Proof. exact retention_only_lemma. Qed.
Print Assumptions C18_retention_only_guarded.

Theorem C18_retention_cache_clear_refuted :
  exists progs sched,
    finished (run (init progs) sched) = true /\
    spec_identity_strict (obs_of_log (log (run (init progs) sched))) = false.
Proof. exact retention_cache_clear_refuted_lemma. Qed.
Print Assumptions C18_retention_cache_clear_refuted.

(* ---- the nocache / instance constructors return FRESH objects: never an object a factory call
   looked up, created or returned, never the tzutc singleton, never the same object twice *)
Theorem C18_instance_fresh : forall progs sched t o,
  let s := run (init progs) sched in
  In (EFresh t o) (log s) ->
  (forall t' f k o' e h, In (ERet t' f k o' e h) (log s) -> o' <> o) /\
  (forall t' f k o' e, In (EBind t' f k o' e) (log s) -> o' <> o) /\
  ~ In (Some o) (utc_results (log s)) /\
  NoDup (fresh_objs (log s)).
Proof. exact instance_fresh_lemma. Qed.
Print Assumptions C18_instance_fresh.

Example C18_instance_fresh_example :
  let s := run (init [[OInstance 0; OCall FOff 5 KFresh 1; OInstance 2]]) (repeat 0%nat 20) in
  fresh_objs (log s) = [3; 1] /\ map snd (refs s) = [3; 2; 1].
Proof. vm_compute. split; reflexivity. Qed.

(* ---- tzutc(): every call returns the object created at import (tz.UTC) *)
Theorem C18_tzutc_identity : forall progs sched o,
  In o (utc_results (log (run (init progs) sched))) -> o = Some (-1).
Proof. exact tzutc_identity_lemma. Qed.
Print Assumptions C18_tzutc_identity.

(* ... which depends on `UTC = tzutc()` having run at import: _TzSingleton takes no lock *)
Theorem C18_singleton_uninitialised_refuted :
  exists progs sched a b,
    utc_results (log (run (init_gen None progs) sched)) = [Some a; Some b] /\ a <> b.
Proof. exact singleton_uninitialised_refuted_lemma. Qed.
Print Assumptions C18_singleton_uninitialised_refuted.

(* ---- threads never observe an exception: requests whose constructor / nocache does not raise
   (and set_cache_size arguments >= 0) never end in an exception, whatever the interleaving *)
Theorem C18_no_exception : forall progs sched t,
  (forall p o, In p progs -> In o p -> ok_op o) ->
  ~ In (EExc t) (log (run (init progs) sched)).
Proof. exact no_exception_lemma. Qed.
Print Assumptions C18_no_exception.

Example C18_no_exception_hypothesis_example :
  forall p o, In p race_progs -> In o p -> ok_op o.
Proof. intros p o [<-|[<-|[]]] [<-|[]]; exact I. Qed.

(* ---- locks: no deadlock, released on every path (also when the constructor or popitem raise),
   mutual exclusion *)
Theorem C18_no_deadlock : forall progs sched,
  let s := run (init progs) sched in
  finished s = false ->
  exists t th, nth_error (thrs s) t = Some th /\ prog th <> [] /\ step s t <> None.
Proof. exact no_deadlock_lemma. Qed.
Print Assumptions C18_no_deadlock.

(* ---- no livelock either: a step of an unfinished thread that is not blocked strictly decreases
   a well-founded measure (40 per pending operation minus the progress inside the current one,
   then the length of gettz's strong cache for set_cache_size's loop), so every run that keeps
   granting enabled threads ends, and from every reachable state the system can finish *)
Theorem C18_progress : forall progs sched t th s',
  let s := run (init progs) sched in
  nth_error (thrs s) t = Some th -> prog th <> [] -> step s t = Some s' -> mlt (measure s') (measure s).
Proof. exact progress_lemma. Qed.
Print Assumptions C18_progress.

Theorem C18_measure_well_founded : well_founded mlt.
Proof. exact mlt_wf. Qed.
Print Assumptions C18_measure_well_founded.

Theorem C18_can_always_finish : forall progs sched,
  exists more, finished (run (init progs) (sched ++ more)) = true.
Proof. exact can_always_finish_lemma. Qed.
Print Assumptions C18_can_always_finish.

Theorem C18_locks_released : forall progs sched,
  let s := run (init progs) sched in
  (finished s = true -> forall f, lock (facs s f) = None) /\
  (forall t th f, nth_error (thrs s) t = Some th -> tpc th = PIdle -> lock (facs s f) <> Some t).
Proof. exact locks_released_lemma. Qed.
Print Assumptions C18_locks_released.

Theorem C18_mutual_exclusion : forall progs sched t1 t2 th1 th2 f,
  let s := run (init progs) sched in
  nth_error (thrs s) t1 = Some th1 -> nth_error (thrs s) t2 = Some th2 ->
  holds th1 f = true -> holds th2 f = true -> t1 = t2.
Proof. exact mutual_exclusion_lemma. Qed.
Print Assumptions C18_mutual_exclusion.

(* ---- what the fix e7e8908 bought: the pre-fix factories (lookup-or-create before the lock)
   violate the spec under a two-thread schedule *)
Theorem C18_old_factory_identity_refuted :
  exists progs sched,
    finished (run_old (init progs) sched) = true /\
    spec_identity (obs_of_log (log (run_old (init progs) sched))) = false.
Proof. exact old_factory_identity_refuted_lemma. Qed.
Print Assumptions C18_old_factory_identity_refuted.

(* ---- equality layer *)
Theorem C18_zone_eq_refl : forall z, zone_eq z z = true.
Proof. exact zone_eq_refl_lemma. Qed.
Print Assumptions C18_zone_eq_refl.

Theorem C18_zone_eq_sym : forall a b, zone_eq a b = zone_eq b a.
Proof. exact zone_eq_sym_lemma. Qed.
Print Assumptions C18_zone_eq_sym.

(* NOTE on the strength of this statement: for tzutc / tzoffset / tzlocal (and their cross pairs) the
   offsets are modelled and the theorem has content.  For tzrange/tzstr, tzfile and tzical zones the
   offset functions are universally quantified functions of EXACTLY the attributes __eq__ compares,
   so "equal compared attributes => equal offsets" is congruence: the theorem ASSUMES that utcoffset
   depends on nothing but the compared attributes.  For tzfile that dependence is a theorem of the
   tzfile area (C06_gen_eq_zones_behave_same: zones whose regenerated __eq__ holds have the same
   fromutc/utcoffset/dst/tzname/exists/ambiguous); for tzrange/tzstr it is an assumption here
   (listed in the evidence; hasdst and _dst_base_offset are derived from the compared attributes in
   tzrange.__init__ / tzstr.__init__), exercised by the == table x probe grid of check_C18. *)
Theorem C18_eq_zones_equal_offsets :
  forall (isdst : Z -> bool) (range_off : Z -> Z -> Z -> Z -> Z -> Z -> Z -> Z) (file_off : Z -> Z -> Z -> Z -> Z)
         (ical_off : Z -> Z -> Z) a b i,
    (zid a = zid b -> a = b) -> zone_eq a b = true ->
    utcoffset isdst range_off file_off ical_off a i = utcoffset isdst range_off file_off ical_off b i.
Proof. exact eq_zones_equal_offsets_lemma. Qed.
Print Assumptions C18_eq_zones_equal_offsets.

(* ---- the model is tied to the source by REGENERATION (harness/gen_factory.py, run on every check):
   gen/FacEqGen.v is the translation of the __eq__/__ne__/__hash__ methods of the five zone classes,
   gen/FacCfgGen.v the statement-level control flow of the six factory bodies. *)
Theorem C18_gen_eq_tzutc : forall id other, gen_eq_tzutc (ZUtc id) other = meth_eq (ZUtc id) other.
Proof. exact gen_eq_tzutc_lemma. Qed.
Print Assumptions C18_gen_eq_tzutc.

Theorem C18_gen_eq_tzoffset : forall id n o other,
  gen_eq_tzoffset (ZOffset id n o) other = meth_eq (ZOffset id n o) other.
Proof. exact gen_eq_tzoffset_lemma. Qed.
Print Assumptions C18_gen_eq_tzoffset.

Theorem C18_gen_eq_tzlocal : forall id std dst n0 other,
  gen_eq_tzlocal (ZLocal id std dst n0) other = meth_eq (ZLocal id std dst n0) other.
Proof. exact gen_eq_tzlocal_lemma. Qed.
Print Assumptions C18_gen_eq_tzlocal.

Theorem C18_gen_eq_tzrange : forall id sub sa da so dof sd ed other,
  gen_eq_tzrange (ZRange id sub sa da so dof sd ed) other = meth_eq (ZRange id sub sa da so dof sd ed) other.
Proof. exact gen_eq_tzrange_lemma. Qed.
Print Assumptions C18_gen_eq_tzrange.

Theorem C18_gen_eq_tzfile : forall id sub fl fi ft other,
  gen_eq_tzfile (ZFile id sub fl fi ft) other = meth_eq (ZFile id sub fl fi ft) other.
Proof. exact gen_eq_tzfile_lemma. Qed.
Print Assumptions C18_gen_eq_tzfile.

Theorem C18_gen_ne : forall a b,
  gen_ne_tzutc a b = zone_ne a b /\ gen_ne_tzoffset a b = zone_ne a b /\ gen_ne_tzlocal a b = zone_ne a b /\
  gen_ne_tzrange a b = zone_ne a b /\ gen_ne_tzfile a b = zone_ne a b.
Proof. exact gen_ne_lemma. Qed.
Print Assumptions C18_gen_ne.

Theorem C18_gen_unhashable :
  gen_hashable_tzutc = false /\ gen_hashable_tzoffset = false /\ gen_hashable_tzlocal = false /\
  gen_hashable_tzrange = false /\ gen_hashable_tzfile = false.
Proof. exact gen_unhashable_lemma. Qed.
Print Assumptions C18_gen_unhashable.

Theorem C18_gen_cfg :
  gen_cfg_single = cfg_single /\ gen_cfg_offset = cfg_factory /\ gen_cfg_str = cfg_factory /\
  gen_cfg_str_nested = cfg_nested /\ gen_cfg_gettz = cfg_gettz /\ gen_cfg_clear = cfg_clear /\
  gen_cfg_size = cfg_size.
Proof. exact gen_cfg_lemma. Qed.
Print Assumptions C18_gen_cfg.

(* ... and `step` follows those tables in every reachable state: a step of an unfinished thread
   moves its program counter along an edge of the table of the operation it executes (or is one of
   the model's idle steps) *)
Theorem C18_step_follows_cfg : forall progs sched t th s' th',
  let s := run (init progs) sched in
  nth_error (thrs s) t = Some th -> prog th <> [] -> step s t = Some s' -> nth_error (thrs s') t = Some th' ->
  th' = th \/ allowed (cfg_of th) (tpc th) (tpc th') = true.
Proof. exact run_follows_cfg_lemma. Qed.
Print Assumptions C18_step_follows_cfg.

(* ---- fixed-offset zones: the methods of tzutc / tzoffset and tzoffset.__init__, regenerated from
   the source by harness/gen_fixedzones.py (gen/FixedGen.v), are the hand model FacFixed ... *)
Theorem C18_gen_fixed_tzoffset : forall self dt,
  gen_tzoffset_utcoffset self dt = fx_utcoffset self dt /\ gen_tzoffset_dst self dt = fx_dst self dt /\
  gen_tzoffset_tzname self dt = fx_tzname self dt /\ gen_tzoffset_is_ambiguous self dt = fx_is_ambiguous self dt /\
  gen_tzoffset_fromutc self dt = fx_fromutc self dt.
Proof. exact gen_fixed_tzoffset_lemma. Qed.
Print Assumptions C18_gen_fixed_tzoffset.

Theorem C18_gen_fixed_tzutc : forall dt,
  gen_tzutc_utcoffset dt = ux_utcoffset dt /\ gen_tzutc_dst dt = ux_dst dt /\ gen_tzutc_tzname dt = ux_tzname dt /\
  gen_tzutc_is_ambiguous dt = ux_is_ambiguous dt /\ gen_tzutc_fromutc dt = ux_fromutc dt.
Proof. exact gen_fixed_tzutc_lemma. Qed.
Print Assumptions C18_gen_fixed_tzutc.

Theorem C18_gen_fixed_init : forall name o, gen_tzoffset_init name o = fx_init name o.
Proof. exact gen_fixed_init_lemma. Qed.
Print Assumptions C18_gen_fixed_init.

Theorem C18_gen_fixed_enfold : forall dt f, gen_enfold dt f = fx_enfold dt f.
Proof. exact gen_enfold_lemma. Qed.
Print Assumptions C18_gen_fixed_enfold.

(* ... and they are the functions the fixed-zone theorems of C04 / C05 (tzfile/TzFixedThm.v:
   C04_fixed_roundtrip, C05_fixed_classify, stated over the fixed_ definitions of TzModel) quantify over *)
Theorem C18_gen_fixed_bridge_tzoffset : forall self w f,
  gen_tzoffset_utcoffset self (w, f) = TzModel.fixed_utcoffset (fz_offset self) w f /\
  gen_tzoffset_fromutc self (w, f) = TzModel.fixed_fromutc (fz_offset self) w /\
  gen_tzoffset_is_ambiguous self (w, f) = TzModel.fixed_is_ambiguous (fz_offset self) w.
Proof. exact fixed_bridge_tzoffset_lemma. Qed.
Print Assumptions C18_gen_fixed_bridge_tzoffset.

Theorem C18_gen_fixed_bridge_tzutc : forall w f,
  gen_tzutc_utcoffset (w, f) = TzModel.fixed_utcoffset 0 w f /\
  gen_tzutc_fromutc (w, false) = TzModel.fixed_fromutc 0 w /\
  gen_tzutc_is_ambiguous (w, f) = TzModel.fixed_is_ambiguous 0 w.
Proof. exact fixed_bridge_tzutc_lemma. Qed.
Print Assumptions C18_gen_fixed_bridge_tzutc.

(* ---- non-vacuity: a two-thread run in which both calls complete, return the same object and
   the spec is checked on two observations *)
Example C18_example_two_threads :
  let s := run (init race_progs) (race_sched ++ repeat 1%nat 20) in
  finished s = true /\ map o_obj (obs_of_log (log s)) = [1; 1] /\
  map snd (refs s) = [1; 1].
Proof. vm_compute. repeat split. Qed.
