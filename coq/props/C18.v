(* C18 -- zone factories return one shared object per key, safely under threads.
   Statements only; proofs are in factory/FacThm.v and factory/FacEqThm.v. *)
From Coq Require Import ZArith List Bool.
From V Require Import factory.FacModel factory.FacSpec factory.FacEq factory.FacEqThm.
Import ListNotations.
Open Scope Z_scope.

Theorem C18_zone_eq_refl : forall z, zone_eq z z = true.
Proof. exact zone_eq_refl_lemma. Qed.
Print Assumptions C18_zone_eq_refl.

Theorem C18_zone_eq_sym : forall a b, zone_eq a b = zone_eq b a.
Proof. exact zone_eq_sym_lemma. Qed.
Print Assumptions C18_zone_eq_sym.

Theorem C18_eq_zones_equal_offsets :
  forall (isdst : Z -> bool) (range_off file_off ical_off : Z -> Z -> Z) a b i,
    (zid a = zid b -> a = b) -> zone_eq a b = true ->
    utcoffset isdst range_off file_off ical_off a i = utcoffset isdst range_off file_off ical_off b i.
Proof. exact eq_zones_equal_offsets_lemma. Qed.
Print Assumptions C18_eq_zones_equal_offsets.
