(* C02x -- extension of coq/props/C02.v: further parse_render_<template> theorems (same conventions: statement,
   `exact <lemma>`, Print Assumptions).  Proofs in coq/parse/Render*.v (builder) and coq/parse/RenderX*.v,
   LexSegX.v (helpers rdalg / rd).  Compiled by `make` (setup) and by `./check C02 thorough`; the quick tier
   compiles the core file only and lists these theorems in the evidence as "extended". *)
From Coq Require Import ZArith List Bool.
From V Require Import base.Cal gen.ParseTables parse.Lex parse.Prim parse.Ymd parse.Parse parse.Build
                      parse.ParseSpec parse.YearThm parse.RenderIso parse.RenderName parse.FracFacts
                      parse.RenderUtc parse.RenderRefuted parse.RenderFrac parse.RenderCommaMon parse.RenderCommaMonth
                      parse.RenderCompact parse.Render12HM parse.Render12HMS parse.RenderOff parse.RenderCtime
                      parse.RenderRfc parse.RenderComma12 parse.RenderCommaDefs parse.RenderOffDefs parse.Render12Defs parse.RenderMisc parse.RenderFlags parse.RenderOff4 parse.Render12H parse.RenderUtcDefs parse.RenderUtcB parse.RenderUtcC parse.RenderUtcD
                      parse.RenderCompactUtc
                      parse.RenderCompactOffA parse.RenderCompactOffB parse.RenderCompactOffC parse.ZoneThm parse.Local parse.RenderLocal.
Import ListNotations.
Open Scope Z_scope.

Theorem C02_parse_render_us_date_time : forall j tf d o df cy loc n0 n1 ig,
  In j plain_joiners -> In tf plain_tforms ->
  valid_dt d = true -> valid_dt df = true ->
  parse (opts_df0 false ig df cy loc n0 n1) (render (TDT DUS j tf ONone) d o)
  = OutOk (expected_dt (TDT DUS j tf ONone) d df) ZNaive 0 false [].
Proof. exact parse_render_us_date_time_lemma. Qed.
Print Assumptions C02_parse_render_us_date_time.

Theorem C02_parse_render_month_dd_yyyy : forall jt d o df cy loc n0 n1 yf ig,
  In jt comma_tails ->
  valid_dt d = true -> valid_dt df = true -> 100 <= d_y d ->
  parse (opts_df0 yf ig df cy loc n0 n1) (render (TDT DMonthDY (fst jt) (snd jt) ONone) d o)
  = OutOk (expected_dt (TDT DMonthDY (fst jt) (snd jt) ONone) d df) ZNaive 0 false [].
Proof. exact parse_render_month_dd_yyyy_lemma. Qed.
Print Assumptions C02_parse_render_month_dd_yyyy.

Theorem C02_parse_render_12h_hms : forall spaced d o df cy loc n0 n1 yf ig,
  valid_dt d = true -> valid_dt df = true ->
  parse (opts_df0 yf ig df cy loc n0 n1) (render (TDT DIso JSpace (T12HMS spaced) ONone) d o)
  = OutOk (expected_dt (TDT DIso JSpace (T12HMS spaced) ONone) d df) ZNaive 0 false [].
Proof. exact parse_render_12h_hms_lemma. Qed.
Print Assumptions C02_parse_render_12h_hms.

(* 2 templates, the one named in the property text: "Mon DD, YYYY hh:MM AM" / "... hh:MMPM" *)
Theorem C02_parse_render_mon_dd_yyyy_12h : forall spaced d o df cy loc n0 n1 yf ig,
  valid_dt d = true -> valid_dt df = true -> 100 <= d_y d ->
  parse (opts_df0 yf ig df cy loc n0 n1) (render (TDT DMonDY JSpace (T12HM spaced) ONone) d o)
  = OutOk (expected_dt (TDT DMonDY JSpace (T12HM spaced) ONone) d df) ZNaive 0 false [].
Proof. exact parse_render_mon_dd_yyyy_12h_lemma. Qed.
Print Assumptions C02_parse_render_mon_dd_yyyy_12h.

(* 4 templates x sign: YYYY-MM-DD{T, space}{HH:MM, HH:MM:SS}{+HHMM, -HHMM} *)
Theorem C02_parse_render_iso_offset4 : forall j tf d o df cy loc n0 n1 yf ig,
  In j plain_joiners -> In tf plain_tforms ->
  valid_dt d = true -> valid_dt df = true -> wf_off o = true -> smem utc_name loc = false ->
  parse (opts_df0 yf ig df cy loc n0 n1) (render (TDT DIso j tf OHHMM) d o)
  = OutOk (expected_dt (TDT DIso j tf OHHMM) d df)
          (if ig then ZNaive else zone_of_off (off_secs o)) 0 false [].
Proof. exact parse_render_iso_offset4_lemma. Qed.
Print Assumptions C02_parse_render_iso_offset4.

(* 2 templates: YYYY-MM-DD hh AM / hhAM (hour only; minute, second, microsecond from the default) *)
Theorem C02_parse_render_12h_h : forall spaced d o df cy loc n0 n1 yf ig,
  valid_dt d = true -> valid_dt df = true ->
  parse (opts_df0 yf ig df cy loc n0 n1) (render (TDT DIso JSpace (T12H spaced) ONone) d o)
  = OutOk (expected_dt (TDT DIso JSpace (T12H spaced) ONone) d df) ZNaive 0 false [].
Proof. exact parse_render_12h_h_lemma. Qed.
Print Assumptions C02_parse_render_12h_h.

(* UTC designators after further forms (UTC / GMT not local zone names):
   YYYY/MM/DD{T, space}{HH:MM, HH:MM:SS} (12), MM/DD/YYYY ... (12, yearfirst False), YYYY-MM-DD{T, space}HH:MM (6),
   YYYYMMDD{T, space}HHMM[SS] (12), each followed by Z / " UTC" / " GMT" *)
Theorem C02_parse_render_slash_utc : forall f j tf ofm d o df cy loc n0 n1 yf ig,
  In f [DSlashYMD] -> In j plain_joiners -> In tf plain_tforms -> In ofm [OZ; OUTC; OGMT] ->
  valid_dt d = true -> valid_dt df = true ->
  smem [85; 84; 67] loc = false -> smem [71; 77; 84] loc = false ->
  parse (opts_df0 yf ig df cy loc n0 n1) (render (TDT f j tf ofm) d o)
  = OutOk (expected_dt (TDT f j tf ofm) d df) (if ig then ZNaive else ZUTC) 0 false [].
Proof. exact parse_render_slash_utc_lemma. Qed.
Print Assumptions C02_parse_render_slash_utc.

Theorem C02_parse_render_us_utc : forall f j tf ofm d o df cy loc n0 n1 ig,
  In f [DUS] -> In j plain_joiners -> In tf plain_tforms -> In ofm [OZ; OUTC; OGMT] ->
  valid_dt d = true -> valid_dt df = true ->
  smem [85; 84; 67] loc = false -> smem [71; 77; 84] loc = false ->
  parse (opts_df0 false ig df cy loc n0 n1) (render (TDT f j tf ofm) d o)
  = OutOk (expected_dt (TDT f j tf ofm) d df) (if ig then ZNaive else ZUTC) 0 false [].
Proof. exact parse_render_us_utc_lemma. Qed.
Print Assumptions C02_parse_render_us_utc.

Theorem C02_parse_render_iso_hm_utc : forall f j tf ofm d o df cy loc n0 n1 yf ig,
  In f [DIso] -> In j plain_joiners -> In tf [THM] -> In ofm [OZ; OUTC; OGMT] ->
  valid_dt d = true -> valid_dt df = true ->
  smem [85; 84; 67] loc = false -> smem [71; 77; 84] loc = false ->
  parse (opts_df0 yf ig df cy loc n0 n1) (render (TDT f j tf ofm) d o)
  = OutOk (expected_dt (TDT f j tf ofm) d df) (if ig then ZNaive else ZUTC) 0 false [].
Proof. exact parse_render_iso_hm_utc_lemma. Qed.
Print Assumptions C02_parse_render_iso_hm_utc.

Theorem C02_parse_render_compact_utc : forall jt ofm d o df cy loc n0 n1 yf ig,
  In jt czone_tails -> In ofm [OZ; OUTC; OGMT] ->
  valid_dt d = true -> valid_dt df = true ->
  smem [85; 84; 67] loc = false -> smem [71; 77; 84] loc = false ->
  parse (opts_df0 yf ig df cy loc n0 n1) (render (TDT DCompact (fst jt) (snd jt) ofm) d o)
  = OutOk (expected_dt (TDT DCompact (fst jt) (snd jt) ofm) d df) (if ig then ZNaive else ZUTC) 0 false [].
Proof. exact parse_render_compact_utc_lemma. Qed.
Print Assumptions C02_parse_render_compact_utc.

Theorem C02_parse_render_compact_offset : forall jt ofm d o df cy loc n0 n1 yf ig,
  In jt czone_tails -> In ofm [OHH_MM] ->
  valid_dt d = true -> valid_dt df = true -> wf_off o = true -> smem utc_name loc = false ->
  parse (opts_df0 yf ig df cy loc n0 n1) (render (TDT DCompact (fst jt) (snd jt) ofm) d o)
  = OutOk (expected_dt (TDT DCompact (fst jt) (snd jt) ofm) d df)
          (if ig then ZNaive else
           match expected_off (TDT DCompact (fst jt) (snd jt) ofm) o with Some v => zone_of_off v | None => ZNaive end)
          0 false [].
Proof. exact RenderCompactOffA.parse_render_compact_offset_lemma. Qed.
Print Assumptions C02_parse_render_compact_offset.

Theorem C02_parse_render_compact_offset2 : forall jt ofm d o df cy loc n0 n1 yf ig,
  In jt czone_tails -> In ofm [OHH] ->
  valid_dt d = true -> valid_dt df = true -> wf_off o = true -> smem utc_name loc = false ->
  parse (opts_df0 yf ig df cy loc n0 n1) (render (TDT DCompact (fst jt) (snd jt) ofm) d o)
  = OutOk (expected_dt (TDT DCompact (fst jt) (snd jt) ofm) d df)
          (if ig then ZNaive else
           match expected_off (TDT DCompact (fst jt) (snd jt) ofm) o with Some v => zone_of_off v | None => ZNaive end)
          0 false [].
Proof. exact RenderCompactOffC.parse_render_compact_offset2_lemma. Qed.
Print Assumptions C02_parse_render_compact_offset2.

Theorem C02_parse_render_compact_offset4 : forall jt ofm d o df cy loc n0 n1 yf ig,
  In jt czone_tails -> In ofm [OHHMM] ->
  valid_dt d = true -> valid_dt df = true -> wf_off o = true -> smem utc_name loc = false ->
  parse (opts_df0 yf ig df cy loc n0 n1) (render (TDT DCompact (fst jt) (snd jt) ofm) d o)
  = OutOk (expected_dt (TDT DCompact (fst jt) (snd jt) ofm) d df)
          (if ig then ZNaive else
           match expected_off (TDT DCompact (fst jt) (snd jt) ofm) o with Some v => zone_of_off v | None => ZNaive end)
          0 false [].
Proof. exact RenderCompactOffB.parse_render_compact_offset4_lemma. Qed.
Print Assumptions C02_parse_render_compact_offset4.

Theorem C02_parse_render_iso_local : forall j tf ofm d o df cy loc n0 n1 yf ig,
  In j plain_joiners -> In tf [THM; THMS] -> In ofm [OUTC; OGMT] ->
  valid_dt d = true -> valid_dt df = true ->
  smem (local_name ofm) loc = true ->
  parse (opts_df0 yf ig df cy loc n0 n1) (render (TDT DIso j tf ofm) d o)
  = OutOk (expected_dt (TDT DIso j tf ofm) d df) (fst (local_zone_res ig n0 n1)) (snd (local_zone_res ig n0 n1)) false [].
Proof. exact parse_render_iso_local_lemma. Qed.
Print Assumptions C02_parse_render_iso_local.

(* ---- helper rdalg (round 4): template theorems proved in coq/parse/RenderX*.v, LexSegX.v ---- *)
From V Require Import parse.LexSeg parse.LexSeg2 parse.RenderTac parse.WordFacts parse.Render12Defs parse.RenderXFracOff_JT_OHH_MM parse.RenderXFracOff_JSpace_OHH_MM parse.RenderXFracOff_JT_OHH parse.RenderXFracOff_JSpace_OHH parse.RenderXFracOff4_JT parse.RenderXFracOff4_JSpace parse.RenderXFracUtc_JT_OZ parse.RenderXFracUtc_JSpace_OZ parse.RenderXFracUtc_JT_OUTC_dot parse.RenderXFracUtc_JT_OUTC_comma parse.RenderXFracUtc_JT_OGMT_dot parse.RenderXFracUtc_JT_OGMT_comma parse.RenderXFracUtc_JSpace_OUTC_dot parse.RenderXFracUtc_JSpace_OUTC_comma parse.RenderXFracUtc_JSpace_OGMT_dot parse.RenderXFracUtc_JSpace_OGMT_comma parse.RenderXDash parse.RenderXEuDot parse.RenderXFracSlash parse.RenderXFracUS parse.RenderXFracName_DDMonY parse.RenderXFracName_DDMonthY parse.RenderXFracDash parse.RenderXFracComma_DMonDY parse.RenderXFracComma_DMonthDY parse.RenderXFracEu.

Theorem C02_parse_render_iso_frac_offset_JT_OHH_MM : forall k comma d o df cy loc n0 n1 yf ig,
  (1 <= k <= 9)%nat ->
  valid_dt d = true -> valid_dt df = true -> wf_off o = true -> smem utc_name loc = false ->
  parse (opts_df0 yf ig df cy loc n0 n1) (render (TDT DIso JT (TFrac k comma) OHH_MM) d o)
  = OutOk (expected_dt (TDT DIso JT (TFrac k comma) OHH_MM) d df)
          (if ig then ZNaive else
           match expected_off (TDT DIso JT (TFrac k comma) OHH_MM) o with Some v => zone_of_off v | None => ZNaive end)
          0 false [].
Proof. exact parse_render_iso_frac_offset_JT_OHH_MM. Qed.
Print Assumptions C02_parse_render_iso_frac_offset_JT_OHH_MM.

Theorem C02_parse_render_iso_frac_offset_JSpace_OHH_MM : forall k comma d o df cy loc n0 n1 yf ig,
  (1 <= k <= 9)%nat ->
  valid_dt d = true -> valid_dt df = true -> wf_off o = true -> smem utc_name loc = false ->
  parse (opts_df0 yf ig df cy loc n0 n1) (render (TDT DIso JSpace (TFrac k comma) OHH_MM) d o)
  = OutOk (expected_dt (TDT DIso JSpace (TFrac k comma) OHH_MM) d df)
          (if ig then ZNaive else
           match expected_off (TDT DIso JSpace (TFrac k comma) OHH_MM) o with Some v => zone_of_off v | None => ZNaive end)
          0 false [].
Proof. exact parse_render_iso_frac_offset_JSpace_OHH_MM. Qed.
Print Assumptions C02_parse_render_iso_frac_offset_JSpace_OHH_MM.

Theorem C02_parse_render_iso_frac_offset_JT_OHH : forall k comma d o df cy loc n0 n1 yf ig,
  (1 <= k <= 9)%nat ->
  valid_dt d = true -> valid_dt df = true -> wf_off o = true -> smem utc_name loc = false ->
  parse (opts_df0 yf ig df cy loc n0 n1) (render (TDT DIso JT (TFrac k comma) OHH) d o)
  = OutOk (expected_dt (TDT DIso JT (TFrac k comma) OHH) d df)
          (if ig then ZNaive else
           match expected_off (TDT DIso JT (TFrac k comma) OHH) o with Some v => zone_of_off v | None => ZNaive end)
          0 false [].
Proof. exact parse_render_iso_frac_offset_JT_OHH. Qed.
Print Assumptions C02_parse_render_iso_frac_offset_JT_OHH.

Theorem C02_parse_render_iso_frac_offset_JSpace_OHH : forall k comma d o df cy loc n0 n1 yf ig,
  (1 <= k <= 9)%nat ->
  valid_dt d = true -> valid_dt df = true -> wf_off o = true -> smem utc_name loc = false ->
  parse (opts_df0 yf ig df cy loc n0 n1) (render (TDT DIso JSpace (TFrac k comma) OHH) d o)
  = OutOk (expected_dt (TDT DIso JSpace (TFrac k comma) OHH) d df)
          (if ig then ZNaive else
           match expected_off (TDT DIso JSpace (TFrac k comma) OHH) o with Some v => zone_of_off v | None => ZNaive end)
          0 false [].
Proof. exact parse_render_iso_frac_offset_JSpace_OHH. Qed.
Print Assumptions C02_parse_render_iso_frac_offset_JSpace_OHH.

Theorem C02_parse_render_iso_frac_offset4_JT : forall k comma d o df cy loc n0 n1 yf ig,
  (1 <= k <= 9)%nat ->
  valid_dt d = true -> valid_dt df = true -> wf_off o = true -> smem utc_name loc = false ->
  parse (opts_df0 yf ig df cy loc n0 n1) (render (TDT DIso JT (TFrac k comma) OHHMM) d o)
  = OutOk (expected_dt (TDT DIso JT (TFrac k comma) OHHMM) d df)
          (if ig then ZNaive else zone_of_off (off_secs o)) 0 false [].
Proof. exact parse_render_iso_frac_offset4_JT. Qed.
Print Assumptions C02_parse_render_iso_frac_offset4_JT.

Theorem C02_parse_render_iso_frac_offset4_JSpace : forall k comma d o df cy loc n0 n1 yf ig,
  (1 <= k <= 9)%nat ->
  valid_dt d = true -> valid_dt df = true -> wf_off o = true -> smem utc_name loc = false ->
  parse (opts_df0 yf ig df cy loc n0 n1) (render (TDT DIso JSpace (TFrac k comma) OHHMM) d o)
  = OutOk (expected_dt (TDT DIso JSpace (TFrac k comma) OHHMM) d df)
          (if ig then ZNaive else zone_of_off (off_secs o)) 0 false [].
Proof. exact parse_render_iso_frac_offset4_JSpace. Qed.
Print Assumptions C02_parse_render_iso_frac_offset4_JSpace.

Theorem C02_parse_render_iso_frac_utc_JT_OZ : forall k comma d o df cy loc n0 n1 yf ig,
  (1 <= k <= 9)%nat ->
  valid_dt d = true -> valid_dt df = true ->
  smem [85; 84; 67] loc = false -> smem [71; 77; 84] loc = false ->
  parse (opts_df0 yf ig df cy loc n0 n1) (render (TDT DIso JT (TFrac k comma) OZ) d o)
  = OutOk (expected_dt (TDT DIso JT (TFrac k comma) OZ) d df) (if ig then ZNaive else ZUTC) 0 false [].
Proof. exact parse_render_iso_frac_utc_JT_OZ. Qed.
Print Assumptions C02_parse_render_iso_frac_utc_JT_OZ.

Theorem C02_parse_render_iso_frac_utc_JSpace_OZ : forall k comma d o df cy loc n0 n1 yf ig,
  (1 <= k <= 9)%nat ->
  valid_dt d = true -> valid_dt df = true ->
  smem [85; 84; 67] loc = false -> smem [71; 77; 84] loc = false ->
  parse (opts_df0 yf ig df cy loc n0 n1) (render (TDT DIso JSpace (TFrac k comma) OZ) d o)
  = OutOk (expected_dt (TDT DIso JSpace (TFrac k comma) OZ) d df) (if ig then ZNaive else ZUTC) 0 false [].
Proof. exact parse_render_iso_frac_utc_JSpace_OZ. Qed.
Print Assumptions C02_parse_render_iso_frac_utc_JSpace_OZ.

Theorem C02_parse_render_iso_frac_utc_JT_OUTC_dot : forall k d o df cy loc n0 n1 yf ig,
  (1 <= k <= 9)%nat ->
  valid_dt d = true -> valid_dt df = true ->
  smem [85; 84; 67] loc = false -> smem [71; 77; 84] loc = false ->
  parse (opts_df0 yf ig df cy loc n0 n1) (render (TDT DIso JT (TFrac k false) OUTC) d o)
  = OutOk (expected_dt (TDT DIso JT (TFrac k false) OUTC) d df) (if ig then ZNaive else ZUTC) 0 false [].
Proof. exact parse_render_iso_frac_utc_JT_OUTC_dot. Qed.
Print Assumptions C02_parse_render_iso_frac_utc_JT_OUTC_dot.

Theorem C02_parse_render_iso_frac_utc_JT_OUTC_comma : forall k d o df cy loc n0 n1 yf ig,
  (1 <= k <= 9)%nat ->
  valid_dt d = true -> valid_dt df = true ->
  smem [85; 84; 67] loc = false -> smem [71; 77; 84] loc = false ->
  parse (opts_df0 yf ig df cy loc n0 n1) (render (TDT DIso JT (TFrac k true) OUTC) d o)
  = OutOk (expected_dt (TDT DIso JT (TFrac k true) OUTC) d df) (if ig then ZNaive else ZUTC) 0 false [].
Proof. exact parse_render_iso_frac_utc_JT_OUTC_comma. Qed.
Print Assumptions C02_parse_render_iso_frac_utc_JT_OUTC_comma.

Theorem C02_parse_render_iso_frac_utc_JT_OGMT_dot : forall k d o df cy loc n0 n1 yf ig,
  (1 <= k <= 9)%nat ->
  valid_dt d = true -> valid_dt df = true ->
  smem [85; 84; 67] loc = false -> smem [71; 77; 84] loc = false ->
  parse (opts_df0 yf ig df cy loc n0 n1) (render (TDT DIso JT (TFrac k false) OGMT) d o)
  = OutOk (expected_dt (TDT DIso JT (TFrac k false) OGMT) d df) (if ig then ZNaive else ZUTC) 0 false [].
Proof. exact parse_render_iso_frac_utc_JT_OGMT_dot. Qed.
Print Assumptions C02_parse_render_iso_frac_utc_JT_OGMT_dot.

Theorem C02_parse_render_iso_frac_utc_JT_OGMT_comma : forall k d o df cy loc n0 n1 yf ig,
  (1 <= k <= 9)%nat ->
  valid_dt d = true -> valid_dt df = true ->
  smem [85; 84; 67] loc = false -> smem [71; 77; 84] loc = false ->
  parse (opts_df0 yf ig df cy loc n0 n1) (render (TDT DIso JT (TFrac k true) OGMT) d o)
  = OutOk (expected_dt (TDT DIso JT (TFrac k true) OGMT) d df) (if ig then ZNaive else ZUTC) 0 false [].
Proof. exact parse_render_iso_frac_utc_JT_OGMT_comma. Qed.
Print Assumptions C02_parse_render_iso_frac_utc_JT_OGMT_comma.

Theorem C02_parse_render_iso_frac_utc_JSpace_OUTC_dot : forall k d o df cy loc n0 n1 yf ig,
  (1 <= k <= 9)%nat ->
  valid_dt d = true -> valid_dt df = true ->
  smem [85; 84; 67] loc = false -> smem [71; 77; 84] loc = false ->
  parse (opts_df0 yf ig df cy loc n0 n1) (render (TDT DIso JSpace (TFrac k false) OUTC) d o)
  = OutOk (expected_dt (TDT DIso JSpace (TFrac k false) OUTC) d df) (if ig then ZNaive else ZUTC) 0 false [].
Proof. exact parse_render_iso_frac_utc_JSpace_OUTC_dot. Qed.
Print Assumptions C02_parse_render_iso_frac_utc_JSpace_OUTC_dot.

Theorem C02_parse_render_iso_frac_utc_JSpace_OUTC_comma : forall k d o df cy loc n0 n1 yf ig,
  (1 <= k <= 9)%nat ->
  valid_dt d = true -> valid_dt df = true ->
  smem [85; 84; 67] loc = false -> smem [71; 77; 84] loc = false ->
  parse (opts_df0 yf ig df cy loc n0 n1) (render (TDT DIso JSpace (TFrac k true) OUTC) d o)
  = OutOk (expected_dt (TDT DIso JSpace (TFrac k true) OUTC) d df) (if ig then ZNaive else ZUTC) 0 false [].
Proof. exact parse_render_iso_frac_utc_JSpace_OUTC_comma. Qed.
Print Assumptions C02_parse_render_iso_frac_utc_JSpace_OUTC_comma.

Theorem C02_parse_render_iso_frac_utc_JSpace_OGMT_dot : forall k d o df cy loc n0 n1 yf ig,
  (1 <= k <= 9)%nat ->
  valid_dt d = true -> valid_dt df = true ->
  smem [85; 84; 67] loc = false -> smem [71; 77; 84] loc = false ->
  parse (opts_df0 yf ig df cy loc n0 n1) (render (TDT DIso JSpace (TFrac k false) OGMT) d o)
  = OutOk (expected_dt (TDT DIso JSpace (TFrac k false) OGMT) d df) (if ig then ZNaive else ZUTC) 0 false [].
Proof. exact parse_render_iso_frac_utc_JSpace_OGMT_dot. Qed.
Print Assumptions C02_parse_render_iso_frac_utc_JSpace_OGMT_dot.

Theorem C02_parse_render_iso_frac_utc_JSpace_OGMT_comma : forall k d o df cy loc n0 n1 yf ig,
  (1 <= k <= 9)%nat ->
  valid_dt d = true -> valid_dt df = true ->
  smem [85; 84; 67] loc = false -> smem [71; 77; 84] loc = false ->
  parse (opts_df0 yf ig df cy loc n0 n1) (render (TDT DIso JSpace (TFrac k true) OGMT) d o)
  = OutOk (expected_dt (TDT DIso JSpace (TFrac k true) OGMT) d df) (if ig then ZNaive else ZUTC) 0 false [].
Proof. exact parse_render_iso_frac_utc_JSpace_OGMT_comma. Qed.
Print Assumptions C02_parse_render_iso_frac_utc_JSpace_OGMT_comma.

Theorem C02_parse_render_dash_mon : forall jt d o df cy loc n0 n1 yf ig,
  In jt dash_tails ->
  valid_dt d = true -> valid_dt df = true ->
  parse (opts_df0 yf ig df cy loc n0 n1) (render (TDT DDashMon (fst jt) (snd jt) ONone) d o)
  = OutOk (expected_dt (TDT DDashMon (fst jt) (snd jt) ONone) d df) ZNaive 0 false [].
Proof. exact parse_render_dash_mon_lemma. Qed.
Print Assumptions C02_parse_render_dash_mon.

Theorem C02_parse_render_eu_dot : forall jt d o df cy loc n0 n1 ig,
  In jt flag_tails ->
  valid_dt d = true -> valid_dt df = true ->
  parse (opts_kw (fst (flags_of (TDT DEUDot (fst jt) (snd jt) ONone))) (snd (flags_of (TDT DEUDot (fst jt) (snd jt) ONone)))
                 ig df cy loc n0 n1)
        (render (TDT DEUDot (fst jt) (snd jt) ONone) d o)
  = OutOk (expected_dt (TDT DEUDot (fst jt) (snd jt) ONone) d df) ZNaive 0 false [].
Proof. exact parse_render_eu_dot_lemma. Qed.
Print Assumptions C02_parse_render_eu_dot.

Theorem C02_parse_render_frac_DSlashYMD : forall j k comma d o df cy loc n0 n1 yf ig,
  In j plain_joiners -> (1 <= k <= 9)%nat ->
  valid_dt d = true -> valid_dt df = true ->
  parse (opts_df0 yf ig df cy loc n0 n1) (render (TDT DSlashYMD j (TFrac k comma) ONone) d o)
  = OutOk (expected_dt (TDT DSlashYMD j (TFrac k comma) ONone) d df) ZNaive 0 false [].
Proof. exact parse_render_frac_DSlashYMD. Qed.
Print Assumptions C02_parse_render_frac_DSlashYMD.

Theorem C02_parse_render_frac_DUS : forall j k comma d o df cy loc n0 n1 ig,
  In j plain_joiners -> (1 <= k <= 9)%nat ->
  valid_dt d = true -> valid_dt df = true ->
  parse (opts_df0 false ig df cy loc n0 n1) (render (TDT DUS j (TFrac k comma) ONone) d o)
  = OutOk (expected_dt (TDT DUS j (TFrac k comma) ONone) d df) ZNaive 0 false [].
Proof. exact parse_render_frac_DUS. Qed.
Print Assumptions C02_parse_render_frac_DUS.

Theorem C02_parse_render_frac_DDMonY : forall k comma d o df cy loc n0 n1 yf ig,
  (1 <= k <= 9)%nat ->
  valid_dt d = true -> valid_dt df = true -> 100 <= d_y d ->
  parse (opts_df0 yf ig df cy loc n0 n1) (render (TDT DDMonY JSpace (TFrac k comma) ONone) d o)
  = OutOk (expected_dt (TDT DDMonY JSpace (TFrac k comma) ONone) d df) ZNaive 0 false [].
Proof. exact parse_render_frac_DDMonY. Qed.
Print Assumptions C02_parse_render_frac_DDMonY.

Theorem C02_parse_render_frac_DDMonthY : forall k comma d o df cy loc n0 n1 yf ig,
  (1 <= k <= 9)%nat ->
  valid_dt d = true -> valid_dt df = true -> 100 <= d_y d ->
  parse (opts_df0 yf ig df cy loc n0 n1) (render (TDT DDMonthY JSpace (TFrac k comma) ONone) d o)
  = OutOk (expected_dt (TDT DDMonthY JSpace (TFrac k comma) ONone) d df) ZNaive 0 false [].
Proof. exact parse_render_frac_DDMonthY. Qed.
Print Assumptions C02_parse_render_frac_DDMonthY.

Theorem C02_parse_render_frac_DDashMon : forall k comma d o df cy loc n0 n1 yf ig,
  (1 <= k <= 9)%nat ->
  valid_dt d = true -> valid_dt df = true ->
  parse (opts_df0 yf ig df cy loc n0 n1) (render (TDT DDashMon JSpace (TFrac k comma) ONone) d o)
  = OutOk (expected_dt (TDT DDashMon JSpace (TFrac k comma) ONone) d df) ZNaive 0 false [].
Proof. exact parse_render_frac_DDashMon. Qed.
Print Assumptions C02_parse_render_frac_DDashMon.

Theorem C02_parse_render_frac_DMonDY : forall k comma d o df cy loc n0 n1 yf ig,
  (1 <= k <= 9)%nat ->
  valid_dt d = true -> valid_dt df = true -> 100 <= d_y d ->
  parse (opts_df0 yf ig df cy loc n0 n1) (render (TDT DMonDY JSpace (TFrac k comma) ONone) d o)
  = OutOk (expected_dt (TDT DMonDY JSpace (TFrac k comma) ONone) d df) ZNaive 0 false [].
Proof. exact parse_render_frac_DMonDY. Qed.
Print Assumptions C02_parse_render_frac_DMonDY.

Theorem C02_parse_render_frac_DMonthDY : forall k comma d o df cy loc n0 n1 yf ig,
  (1 <= k <= 9)%nat ->
  valid_dt d = true -> valid_dt df = true -> 100 <= d_y d ->
  parse (opts_df0 yf ig df cy loc n0 n1) (render (TDT DMonthDY JSpace (TFrac k comma) ONone) d o)
  = OutOk (expected_dt (TDT DMonthDY JSpace (TFrac k comma) ONone) d df) ZNaive 0 false [].
Proof. exact parse_render_frac_DMonthDY. Qed.
Print Assumptions C02_parse_render_frac_DMonthDY.

Theorem C02_parse_render_frac_DEUDot : forall k comma d o df cy loc n0 n1 ig,
  (1 <= k <= 9)%nat ->
  valid_dt d = true -> valid_dt df = true ->
  parse (opts_kw (fst (flags_of (TDT DEUDot JSpace (TFrac k comma) ONone))) (snd (flags_of (TDT DEUDot JSpace (TFrac k comma) ONone)))
                 ig df cy loc n0 n1)
        (render (TDT DEUDot JSpace (TFrac k comma) ONone) d o)
  = OutOk (expected_dt (TDT DEUDot JSpace (TFrac k comma) ONone) d df) ZNaive 0 false [].
Proof. exact parse_render_frac_DEUDot. Qed.
Print Assumptions C02_parse_render_frac_DEUDot.

Theorem C02_parse_render_frac_DEU : forall k comma d o df cy loc n0 n1 ig,
  (1 <= k <= 9)%nat ->
  valid_dt d = true -> valid_dt df = true ->
  parse (opts_kw (fst (flags_of (TDT DEU JSpace (TFrac k comma) ONone))) (snd (flags_of (TDT DEU JSpace (TFrac k comma) ONone)))
                 ig df cy loc n0 n1)
        (render (TDT DEU JSpace (TFrac k comma) ONone) d o)
  = OutOk (expected_dt (TDT DEU JSpace (TFrac k comma) ONone) d df) ZNaive 0 false [].
Proof. exact parse_render_frac_DEU. Qed.
Print Assumptions C02_parse_render_frac_DEU.

(* ---- numeric UTC offsets (+HH:MM, +HH, +HHMM; either sign) after NON-ISO date-times (rd builder;
   per-case files parse/RenderXOffN_*.v, RenderXOffD_*.v, RenderXOffC_*.v, collected in RenderXOffAll.v /
   RenderXOffAllC.v).  zone_expected t o ig = if ig then ZNaive else zone_of_off (expected offset). *)
From V Require Import parse.RenderXOffAll parse.RenderXOffAllC.

(* DD Mon YYYY / DD Month YYYY + space + HH:MM[:SS] + offset; guard 100 <= year (F-C02-padyear) *)
Theorem C02_parse_render_name_offset : forall f tf ofm d o df cy loc n0 n1 yf ig,
  In f x_name_dforms -> In tf x_tforms -> In ofm x_oforms ->
  valid_dt d = true -> valid_dt df = true -> 100 <= d_y d -> wf_off o = true -> smem utc_name loc = false ->
  parse (opts_df0 yf ig df cy loc n0 n1) (render (TDT f JSpace tf ofm) d o)
  = OutOk (expected_dt (TDT f JSpace tf ofm) d df) (zone_expected (TDT f JSpace tf ofm) o ig) 0 false [].
Proof. exact parse_render_name_offset_lemma. Qed.
Print Assumptions C02_parse_render_name_offset.

(* Mon DD, YYYY / Month DD, YYYY + space + HH:MM[:SS] + offset; guard 100 <= year *)
Theorem C02_parse_render_comma_offset : forall f tf ofm d o df cy loc n0 n1 yf ig,
  In f x_comma_dforms -> In tf x_tforms -> In ofm x_oforms ->
  valid_dt d = true -> valid_dt df = true -> 100 <= d_y d -> wf_off o = true -> smem utc_name loc = false ->
  parse (opts_df0 yf ig df cy loc n0 n1) (render (TDT f JSpace tf ofm) d o)
  = OutOk (expected_dt (TDT f JSpace tf ofm) d df) (zone_expected (TDT f JSpace tf ofm) o ig) 0 false [].
Proof. exact parse_render_comma_offset_lemma. Qed.
Print Assumptions C02_parse_render_comma_offset.

(* MM/DD/YYYY {T, space} HH:MM[:SS] + offset; dayfirst = yearfirst = False *)
Theorem C02_parse_render_us_offset : forall j tf ofm d o df cy loc n0 n1 ig,
  In j plain_joiners -> In tf x_tforms -> In ofm x_oforms ->
  valid_dt d = true -> valid_dt df = true -> wf_off o = true -> smem utc_name loc = false ->
  parse (opts_df0 false ig df cy loc n0 n1) (render (TDT DUS j tf ofm) d o)
  = OutOk (expected_dt (TDT DUS j tf ofm) d df) (zone_expected (TDT DUS j tf ofm) o ig) 0 false [].
Proof. exact parse_render_us_offset_lemma. Qed.
Print Assumptions C02_parse_render_us_offset.

(* YYYY/MM/DD space HH:MM[:SS] + offset; yearfirst arbitrary *)
Theorem C02_parse_render_slash_offset : forall tf ofm d o df cy loc n0 n1 yf ig,
  In tf x_tforms -> In ofm x_oforms ->
  valid_dt d = true -> valid_dt df = true -> wf_off o = true -> smem utc_name loc = false ->
  parse (opts_df0 yf ig df cy loc n0 n1) (render (TDT DSlashYMD JSpace tf ofm) d o)
  = OutOk (expected_dt (TDT DSlashYMD JSpace tf ofm) d df) (zone_expected (TDT DSlashYMD JSpace tf ofm) o ig) 0 false [].
Proof. exact parse_render_slash_offset_lemma. Qed.
Print Assumptions C02_parse_render_slash_offset.

(* ---- helper rdalg (round 4): template theorems proved in coq/parse/RenderX*.v, LexSegX.v ---- *)
From V Require Import parse.LexSeg parse.LexSeg2 parse.RenderTac parse.WordFacts parse.Render12Defs parse.RenderXTimeOff_THMS parse.RenderXTimeOff_THM parse.RenderXTimeOff4 parse.RenderXTimeUtc parse.RenderX12_DUS_T12HM parse.RenderX12_DUS_T12HMS parse.RenderX12_DSlashYMD_T12HM parse.RenderX12_DSlashYMD_T12HMS parse.RenderX12Comma_DMonthDY_T12HM_sp parse.RenderX12Comma_DMonthDY_T12HM_nosp parse.RenderX12Comma_DMonDY_T12HMS_sp.

Theorem C02_parse_render_time_offset_THMS : forall ofm d o df cy loc n0 n1 yf ig,
  In ofm zone_oforms ->
  valid_dt d = true -> valid_dt df = true -> wf_off o = true -> smem utc_name loc = false ->
  parse (opts_df0 yf ig df cy loc n0 n1) (render (TDT DNone JNone THMS ofm) d o)
  = OutOk (expected_dt (TDT DNone JNone THMS ofm) d df)
          (if ig then ZNaive else
           match expected_off (TDT DNone JNone THMS ofm) o with Some v => zone_of_off v | None => ZNaive end)
          0 false [].
Proof. exact parse_render_time_offset_THMS. Qed.
Print Assumptions C02_parse_render_time_offset_THMS.

Theorem C02_parse_render_time_offset_THM : forall ofm d o df cy loc n0 n1 yf ig,
  In ofm zone_oforms ->
  valid_dt d = true -> valid_dt df = true -> wf_off o = true -> smem utc_name loc = false ->
  parse (opts_df0 yf ig df cy loc n0 n1) (render (TDT DNone JNone THM ofm) d o)
  = OutOk (expected_dt (TDT DNone JNone THM ofm) d df)
          (if ig then ZNaive else
           match expected_off (TDT DNone JNone THM ofm) o with Some v => zone_of_off v | None => ZNaive end)
          0 false [].
Proof. exact parse_render_time_offset_THM. Qed.
Print Assumptions C02_parse_render_time_offset_THM.

Theorem C02_parse_render_time_offset4 : forall tf d o df cy loc n0 n1 yf ig,
  In tf plain_tforms ->
  valid_dt d = true -> valid_dt df = true -> wf_off o = true -> smem utc_name loc = false ->
  parse (opts_df0 yf ig df cy loc n0 n1) (render (TDT DNone JNone tf OHHMM) d o)
  = OutOk (expected_dt (TDT DNone JNone tf OHHMM) d df)
          (if ig then ZNaive else zone_of_off (off_secs o)) 0 false [].
Proof. exact parse_render_time_offset4. Qed.
Print Assumptions C02_parse_render_time_offset4.

Theorem C02_parse_render_time_utc_OZ : forall tf d o df cy loc n0 n1 yf ig,
  In tf plain_tforms ->
  valid_dt d = true -> valid_dt df = true ->
  smem [85; 84; 67] loc = false -> smem [71; 77; 84] loc = false ->
  parse (opts_df0 yf ig df cy loc n0 n1) (render (TDT DNone JNone tf OZ) d o)
  = OutOk (expected_dt (TDT DNone JNone tf OZ) d df) (if ig then ZNaive else ZUTC) 0 false [].
Proof. exact parse_render_time_utc_OZ. Qed.
Print Assumptions C02_parse_render_time_utc_OZ.

Theorem C02_parse_render_time_utc_OUTC : forall tf d o df cy loc n0 n1 yf ig,
  In tf plain_tforms ->
  valid_dt d = true -> valid_dt df = true ->
  smem [85; 84; 67] loc = false -> smem [71; 77; 84] loc = false ->
  parse (opts_df0 yf ig df cy loc n0 n1) (render (TDT DNone JNone tf OUTC) d o)
  = OutOk (expected_dt (TDT DNone JNone tf OUTC) d df) (if ig then ZNaive else ZUTC) 0 false [].
Proof. exact parse_render_time_utc_OUTC. Qed.
Print Assumptions C02_parse_render_time_utc_OUTC.

Theorem C02_parse_render_time_utc_OGMT : forall tf d o df cy loc n0 n1 yf ig,
  In tf plain_tforms ->
  valid_dt d = true -> valid_dt df = true ->
  smem [85; 84; 67] loc = false -> smem [71; 77; 84] loc = false ->
  parse (opts_df0 yf ig df cy loc n0 n1) (render (TDT DNone JNone tf OGMT) d o)
  = OutOk (expected_dt (TDT DNone JNone tf OGMT) d df) (if ig then ZNaive else ZUTC) 0 false [].
Proof. exact parse_render_time_utc_OGMT. Qed.
Print Assumptions C02_parse_render_time_utc_OGMT.

Theorem C02_parse_render_12h_DUS_T12HM : forall spaced d o df cy loc n0 n1 ig,
  valid_dt d = true -> valid_dt df = true ->
  parse (opts_df0 false ig df cy loc n0 n1) (render (TDT DUS JSpace (T12HM spaced) ONone) d o)
  = OutOk (expected_dt (TDT DUS JSpace (T12HM spaced) ONone) d df) ZNaive 0 false [].
Proof. exact parse_render_12h_DUS_T12HM. Qed.
Print Assumptions C02_parse_render_12h_DUS_T12HM.

Theorem C02_parse_render_12h_DUS_T12HMS : forall spaced d o df cy loc n0 n1 ig,
  valid_dt d = true -> valid_dt df = true ->
  parse (opts_df0 false ig df cy loc n0 n1) (render (TDT DUS JSpace (T12HMS spaced) ONone) d o)
  = OutOk (expected_dt (TDT DUS JSpace (T12HMS spaced) ONone) d df) ZNaive 0 false [].
Proof. exact parse_render_12h_DUS_T12HMS. Qed.
Print Assumptions C02_parse_render_12h_DUS_T12HMS.

Theorem C02_parse_render_12h_DSlashYMD_T12HM : forall spaced d o df cy loc n0 n1 yf ig,
  valid_dt d = true -> valid_dt df = true ->
  parse (opts_df0 yf ig df cy loc n0 n1) (render (TDT DSlashYMD JSpace (T12HM spaced) ONone) d o)
  = OutOk (expected_dt (TDT DSlashYMD JSpace (T12HM spaced) ONone) d df) ZNaive 0 false [].
Proof. exact parse_render_12h_DSlashYMD_T12HM. Qed.
Print Assumptions C02_parse_render_12h_DSlashYMD_T12HM.

Theorem C02_parse_render_12h_DSlashYMD_T12HMS : forall spaced d o df cy loc n0 n1 yf ig,
  valid_dt d = true -> valid_dt df = true ->
  parse (opts_df0 yf ig df cy loc n0 n1) (render (TDT DSlashYMD JSpace (T12HMS spaced) ONone) d o)
  = OutOk (expected_dt (TDT DSlashYMD JSpace (T12HMS spaced) ONone) d df) ZNaive 0 false [].
Proof. exact parse_render_12h_DSlashYMD_T12HMS. Qed.
Print Assumptions C02_parse_render_12h_DSlashYMD_T12HMS.

Theorem C02_parse_render_12h_DMonthDY_T12HM_sp : forall d o df cy loc n0 n1 yf ig,
  valid_dt d = true -> valid_dt df = true -> 100 <= d_y d ->
  parse (opts_df0 yf ig df cy loc n0 n1) (render (TDT DMonthDY JSpace (T12HM true) ONone) d o)
  = OutOk (expected_dt (TDT DMonthDY JSpace (T12HM true) ONone) d df) ZNaive 0 false [].
Proof. exact parse_render_12h_DMonthDY_T12HM_sp. Qed.
Print Assumptions C02_parse_render_12h_DMonthDY_T12HM_sp.

Theorem C02_parse_render_12h_DMonthDY_T12HM_nosp : forall d o df cy loc n0 n1 yf ig,
  valid_dt d = true -> valid_dt df = true -> 100 <= d_y d ->
  parse (opts_df0 yf ig df cy loc n0 n1) (render (TDT DMonthDY JSpace (T12HM false) ONone) d o)
  = OutOk (expected_dt (TDT DMonthDY JSpace (T12HM false) ONone) d df) ZNaive 0 false [].
Proof. exact parse_render_12h_DMonthDY_T12HM_nosp. Qed.
Print Assumptions C02_parse_render_12h_DMonthDY_T12HM_nosp.

Theorem C02_parse_render_12h_DMonDY_T12HMS_sp : forall d o df cy loc n0 n1 yf ig,
  valid_dt d = true -> valid_dt df = true -> 100 <= d_y d ->
  parse (opts_df0 yf ig df cy loc n0 n1) (render (TDT DMonDY JSpace (T12HMS true) ONone) d o)
  = OutOk (expected_dt (TDT DMonDY JSpace (T12HMS true) ONone) d df) ZNaive 0 false [].
Proof. exact parse_render_12h_DMonDY_T12HMS_sp. Qed.
Print Assumptions C02_parse_render_12h_DMonDY_T12HMS_sp.

(* ---- Z / " UTC" / " GMT" after month-name and comma date-times (rd builder; parse/RenderXUtcN_*.v,
   RenderXUtcC_*.v, collected in RenderXUtcAll.v); guard 100 <= year (F-C02-padyear) *)
From V Require Import parse.RenderXUtcAll.

Theorem C02_parse_render_word_utc : forall f tf ofm d o df cy loc n0 n1 yf ig,
  In f x_word_dforms -> In tf x_tforms -> In ofm x_utc_oforms ->
  valid_dt d = true -> valid_dt df = true -> 100 <= d_y d ->
  smem [85; 84; 67] loc = false -> smem [71; 77; 84] loc = false ->
  parse (opts_df0 yf ig df cy loc n0 n1) (render (TDT f JSpace tf ofm) d o)
  = OutOk (expected_dt (TDT f JSpace tf ofm) d df) (if ig then ZNaive else ZUTC) 0 false [].
Proof. exact parse_render_word_utc_lemma. Qed.
Print Assumptions C02_parse_render_word_utc.

(* ---- helper rdalg (round 4): template theorems proved in coq/parse/RenderX*.v, LexSegX.v ---- *)
From V Require Import parse.LexSeg parse.LexSeg2 parse.RenderTac parse.WordFacts parse.Render12Defs parse.RenderXTimeFrac parse.RenderX12Comma_DMonDY_T12HMS_nosp parse.RenderX12Comma_DMonthDY_T12HMS_sp parse.RenderX12Comma_DMonthDY_T12HMS_nosp parse.RenderX12Name_DDashMon parse.RenderX12Name_DDMonY.

Theorem C02_parse_render_time_frac : forall k comma d o df cy loc n0 n1 yf ig,
  (1 <= k <= 9)%nat ->
  valid_dt d = true -> valid_dt df = true ->
  parse (opts_df0 yf ig df cy loc n0 n1) (render (TDT DNone JNone (TFrac k comma) ONone) d o)
  = OutOk (expected_dt (TDT DNone JNone (TFrac k comma) ONone) d df) ZNaive 0 false [].
Proof. exact parse_render_time_frac. Qed.
Print Assumptions C02_parse_render_time_frac.

Theorem C02_parse_render_12h_DMonDY_T12HMS_nosp : forall d o df cy loc n0 n1 yf ig,
  valid_dt d = true -> valid_dt df = true -> 100 <= d_y d ->
  parse (opts_df0 yf ig df cy loc n0 n1) (render (TDT DMonDY JSpace (T12HMS false) ONone) d o)
  = OutOk (expected_dt (TDT DMonDY JSpace (T12HMS false) ONone) d df) ZNaive 0 false [].
Proof. exact parse_render_12h_DMonDY_T12HMS_nosp. Qed.
Print Assumptions C02_parse_render_12h_DMonDY_T12HMS_nosp.

Theorem C02_parse_render_12h_DMonthDY_T12HMS_sp : forall d o df cy loc n0 n1 yf ig,
  valid_dt d = true -> valid_dt df = true -> 100 <= d_y d ->
  parse (opts_df0 yf ig df cy loc n0 n1) (render (TDT DMonthDY JSpace (T12HMS true) ONone) d o)
  = OutOk (expected_dt (TDT DMonthDY JSpace (T12HMS true) ONone) d df) ZNaive 0 false [].
Proof. exact parse_render_12h_DMonthDY_T12HMS_sp. Qed.
Print Assumptions C02_parse_render_12h_DMonthDY_T12HMS_sp.

Theorem C02_parse_render_12h_DMonthDY_T12HMS_nosp : forall d o df cy loc n0 n1 yf ig,
  valid_dt d = true -> valid_dt df = true -> 100 <= d_y d ->
  parse (opts_df0 yf ig df cy loc n0 n1) (render (TDT DMonthDY JSpace (T12HMS false) ONone) d o)
  = OutOk (expected_dt (TDT DMonthDY JSpace (T12HMS false) ONone) d df) ZNaive 0 false [].
Proof. exact parse_render_12h_DMonthDY_T12HMS_nosp. Qed.
Print Assumptions C02_parse_render_12h_DMonthDY_T12HMS_nosp.

Theorem C02_parse_render_12h_DDashMon_T12HM : forall spaced d o df cy loc n0 n1 yf ig,
  valid_dt d = true -> valid_dt df = true ->
  parse (opts_df0 yf ig df cy loc n0 n1) (render (TDT DDashMon JSpace (T12HM spaced) ONone) d o)
  = OutOk (expected_dt (TDT DDashMon JSpace (T12HM spaced) ONone) d df) ZNaive 0 false [].
Proof. exact parse_render_12h_DDashMon_T12HM. Qed.
Print Assumptions C02_parse_render_12h_DDashMon_T12HM.

Theorem C02_parse_render_12h_DDMonY_T12HM : forall spaced d o df cy loc n0 n1 yf ig,
  valid_dt d = true -> valid_dt df = true -> 100 <= d_y d ->
  parse (opts_df0 yf ig df cy loc n0 n1) (render (TDT DDMonY JSpace (T12HM spaced) ONone) d o)
  = OutOk (expected_dt (TDT DDMonY JSpace (T12HM spaced) ONone) d df) ZNaive 0 false [].
Proof. exact parse_render_12h_DDMonY_T12HM. Qed.
Print Assumptions C02_parse_render_12h_DDMonY_T12HM.

(* builder: `Z` under a process time zone whose time.tzname contains "UTC" (TZ=UTC): local-name counterpart of
   C02_parse_render_iso_utc / _iso_hm_utc for OZ *)
From V Require Import parse.RenderLocal parse.RenderLocalZ.

Theorem C02_parse_render_iso_z_local : forall j tf d o df cy loc n0 n1 yf ig,
  In j plain_joiners -> In tf [THM; THMS] ->
  valid_dt d = true -> valid_dt df = true ->
  smem [85; 84; 67] loc = true ->
  parse (opts_df0 yf ig df cy loc n0 n1) (render (TDT DIso j tf OZ) d o)
  = OutOk (expected_dt (TDT DIso j tf OZ) d df) (fst (local_zone_res ig n0 n1)) (snd (local_zone_res ig n0 n1)) false [].
Proof. exact parse_render_iso_z_local_lemma. Qed.
Print Assumptions C02_parse_render_iso_z_local.

(* ---- helper rdalg (round 4): template theorems proved in coq/parse/RenderX*.v, LexSegX.v ---- *)
From V Require Import parse.ParseSpec2 parse.LexSeg parse.LexSeg2 parse.RenderTac parse.WordFacts parse.Render12Defs parse.RenderX12Name_DDMonthY parse.RenderXCompactFrac parse.RenderXCompactFracUtc parse.RenderXCompactFracOff_OHH_MM parse.RenderXCompactFracOff_OHH.

Theorem C02_parse_render_12h_DDMonthY_T12HM : forall spaced d o df cy loc n0 n1 yf ig,
  valid_dt d = true -> valid_dt df = true -> 100 <= d_y d ->
  parse (opts_df0 yf ig df cy loc n0 n1) (render (TDT DDMonthY JSpace (T12HM spaced) ONone) d o)
  = OutOk (expected_dt (TDT DDMonthY JSpace (T12HM spaced) ONone) d df) ZNaive 0 false [].
Proof. exact parse_render_12h_DDMonthY_T12HM. Qed.
Print Assumptions C02_parse_render_12h_DDMonthY_T12HM.

Theorem C02_parse_render_compact_frac : forall space k comma d o df cy loc n0 n1 yf ig,
  (1 <= k <= 9)%nat ->
  valid_dt d = true -> valid_dt df = true ->
  parse (opts_df0 yf ig df cy loc n0 n1) (render_cf space k comma ONone d o)
  = OutOk (expected_cf_dt k d) ZNaive 0 false [].
Proof. exact parse_render_compact_frac. Qed.
Print Assumptions C02_parse_render_compact_frac.

Theorem C02_parse_render_compact_frac_utc_OZ : forall space k comma d o df cy loc n0 n1 yf ig,
  (1 <= k <= 9)%nat ->
  valid_dt d = true -> valid_dt df = true ->
  smem [85; 84; 67] loc = false -> smem [71; 77; 84] loc = false ->
  parse (opts_df0 yf ig df cy loc n0 n1) (render_cf space k comma OZ d o)
  = OutOk (expected_cf_dt k d) (if ig then ZNaive else ZUTC) 0 false [].
Proof. exact parse_render_compact_frac_utc_OZ. Qed.
Print Assumptions C02_parse_render_compact_frac_utc_OZ.

Theorem C02_parse_render_compact_frac_utc_OUTC : forall space k comma d o df cy loc n0 n1 yf ig,
  (1 <= k <= 9)%nat ->
  valid_dt d = true -> valid_dt df = true ->
  smem [85; 84; 67] loc = false -> smem [71; 77; 84] loc = false ->
  parse (opts_df0 yf ig df cy loc n0 n1) (render_cf space k comma OUTC d o)
  = OutOk (expected_cf_dt k d) (if ig then ZNaive else ZUTC) 0 false [].
Proof. exact parse_render_compact_frac_utc_OUTC. Qed.
Print Assumptions C02_parse_render_compact_frac_utc_OUTC.

Theorem C02_parse_render_compact_frac_utc_OGMT : forall space k comma d o df cy loc n0 n1 yf ig,
  (1 <= k <= 9)%nat ->
  valid_dt d = true -> valid_dt df = true ->
  smem [85; 84; 67] loc = false -> smem [71; 77; 84] loc = false ->
  parse (opts_df0 yf ig df cy loc n0 n1) (render_cf space k comma OGMT d o)
  = OutOk (expected_cf_dt k d) (if ig then ZNaive else ZUTC) 0 false [].
Proof. exact parse_render_compact_frac_utc_OGMT. Qed.
Print Assumptions C02_parse_render_compact_frac_utc_OGMT.

Theorem C02_parse_render_compact_frac_offset_OHH_MM : forall space k comma d o df cy loc n0 n1 yf ig,
  (1 <= k <= 9)%nat ->
  valid_dt d = true -> valid_dt df = true -> wf_off o = true -> smem utc_name loc = false ->
  parse (opts_df0 yf ig df cy loc n0 n1) (render_cf space k comma OHH_MM d o)
  = OutOk (expected_cf_dt k d)
          (if ig then ZNaive else
           match expected_cf_off OHH_MM o with Some v => zone_of_off v | None => ZNaive end) 0 false [].
Proof. exact parse_render_compact_frac_offset_OHH_MM. Qed.
Print Assumptions C02_parse_render_compact_frac_offset_OHH_MM.

Theorem C02_parse_render_compact_frac_offset_OHH : forall space k comma d o df cy loc n0 n1 yf ig,
  (1 <= k <= 9)%nat ->
  valid_dt d = true -> valid_dt df = true -> wf_off o = true -> smem utc_name loc = false ->
  parse (opts_df0 yf ig df cy loc n0 n1) (render_cf space k comma OHH d o)
  = OutOk (expected_cf_dt k d)
          (if ig then ZNaive else
           match expected_cf_off OHH o with Some v => zone_of_off v | None => ZNaive end) 0 false [].
Proof. exact parse_render_compact_frac_offset_OHH. Qed.
Print Assumptions C02_parse_render_compact_frac_offset_OHH.

(* ---- helper rdalg (round 4): template theorems proved in coq/parse/RenderX*.v, LexSegX.v ---- *)
From V Require Import parse.LexSeg parse.LexSeg2 parse.RenderTac parse.WordFacts parse.Render12Defs parse.RenderXCompactFracOff4.

Theorem C02_parse_render_compact_frac_offset4 : forall space k comma d o df cy loc n0 n1 yf ig,
  (1 <= k <= 9)%nat ->
  valid_dt d = true -> valid_dt df = true -> wf_off o = true -> smem utc_name loc = false ->
  parse (opts_df0 yf ig df cy loc n0 n1) (render_cf space k comma OHHMM d o)
  = OutOk (expected_cf_dt k d)
          (if ig then ZNaive else
           match expected_cf_off OHHMM o with Some v => zone_of_off v | None => ZNaive end) 0 false [].
Proof. exact parse_render_compact_frac_offset4. Qed.
Print Assumptions C02_parse_render_compact_frac_offset4.
