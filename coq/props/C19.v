(* C19 -- easter() returns the canonical Easter Sunday for each method.
   Statements only; proofs are in easter/EasterThm.v over the model regenerated from /repo. *)
From Coq Require Import ZArith List Bool.
From V Require Import base.Cal gen.EasterGen easter.EasterSpec easter.EasterThm.
Open Scope Z_scope.

Theorem C19_western : forall y, 1583 <= y <= 4099 ->
  exists m d, easter_gen y 3 = Some (y, m, d) /\ (m, d) = mjb y /\
              weekday y m d = 6 /\ in_mar22_apr25 m d = true.
Proof. exact easter_western_lemma. Qed.
Print Assumptions C19_western.

Theorem C19_julian : forall y, 326 <= y <= 9999 ->
  exists m d, easter_gen y 1 = Some (y, m, d) /\ (m, d) = meeus_julian y /\
              jdn_is_sunday (jdn_of_julian y m d) = true.
Proof. exact easter_julian_lemma. Qed.
Print Assumptions C19_julian.

Theorem C19_orthodox : forall y, 1583 <= y <= 4099 ->
  exists gy gm gd, easter_gen y 2 = Some (gy, gm, gd) /\
    (gy, gm, gd) = (let '(m, d) := meeus_julian y in greg_of_julian y m d) /\
    weekday gy gm gd = 6.
Proof. exact easter_orthodox_lemma. Qed.
Print Assumptions C19_orthodox.

Theorem C19_bad_method : forall y m, m < 1 \/ m > 3 -> easter_gen y m = None.
Proof. exact easter_bad_method_lemma. Qed.
Print Assumptions C19_bad_method.

Theorem C19_default_method : easter_default_method = 3.
Proof. exact easter_default_lemma. Qed.
Print Assumptions C19_default_method.
