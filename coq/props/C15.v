(* C15 -- parse() options: default fill-in, time-zone resolution and fuzzy modes.
   Statements only; proofs are in parse/OptThm.v (and parse/BuildThm.v) over the hand model. *)
From Coq Require Import ZArith List Bool.
From V Require Import base.Cal gen.ParseTables parse.Lex parse.Prim parse.Ymd parse.Parse parse.Build
                      parse.ParseSpec parse.OptThm parse.ZoneThm parse.FillThm parse.SkipThm parse.FuzzyThm.
Import ListNotations.
Open Scope Z_scope.

(* fields absent from the text are taken from the default; an absent day is the default day
   clipped to the end of the resulting month *)
Theorem C15_default_fill : forall r d n,
  build_naive r d = Ok n -> r_weekday r = None ->
  d_y n = dflt (r_year r) (d_y d) /\ d_mo n = dflt (r_month r) (d_mo d) /\
  d_d n = match r_day r with
          | Some v => v
          | None => Z.min (d_d d) (dim (dflt (r_year r) (d_y d)) (dflt (r_month r) (d_mo d)))
          end /\
  d_h n = dflt (r_hour r) (d_h d) /\ d_mi n = dflt (r_minute r) (d_mi d) /\
  d_s n = dflt (r_second r) (d_s d) /\ d_us n = dflt (r_us r) (d_us d) /\ valid_dt n = true.
Proof. exact default_fill_lemma. Qed.
Print Assumptions C15_default_fill.

(* a bare weekday moves the date forward (0..6 days) to that weekday, time of day untouched *)
Theorem C15_weekday_moves_forward : forall d wd d',
  add_weekday d wd = Ok d' -> 0 <= wd <= 6 -> valid_dt d = true ->
  let o := ord_of_ymd (d_y d) (d_mo d) (d_d d) in
  let o' := ord_of_ymd (d_y d') (d_mo d') (d_d d') in
  o <= o' < o + 7 /\ weekday_of_ord o' = wd /\
  d_h d' = d_h d /\ d_mi d' = d_mi d /\ d_s d' = d_s d /\ d_us d' = d_us d.
Proof. exact add_weekday_forward. Qed.
Print Assumptions C15_weekday_moves_forward.

Theorem C15_ignoretz_same_wall : forall o s d z fold w toks,
  parse (with_ignoretz o false) s = OutOk d z fold w toks ->
  parse (with_ignoretz o true) s = OutOk d ZNaive 0 false toks.
Proof. exact ignoretz_same_wall_lemma. Qed.
Print Assumptions C15_ignoretz_same_wall.

Theorem C15_fuzzy_tokens_same_dt : forall o s fz,
  drop_tokens (parse (with_fuzzy o fz true) s) = drop_tokens (parse (with_fuzzy o true false) s).
Proof. exact fuzzy_tokens_same_dt_lemma. Qed.
Print Assumptions C15_fuzzy_tokens_same_dt.

(* D15 (open finding F-C15-ampm): "10:00 am pm" is 22:00 without fuzzy and 10:00 with fuzzy *)
Theorem C15_fuzzy_conservative_refuted :
  exists s d1 d2, parse opts0 s = OutOk d1 ZNaive 0 false [] /\
                  parse (with_fuzzy opts0 true false) s = OutOk d2 ZNaive 0 false [] /\
                  d_h d1 = 22 /\ d_h d2 = 10.
Proof. exact fuzzy_conservative_refuted_lemma. Qed.
Print Assumptions C15_fuzzy_conservative_refuted.

(* zone-resolution decision table: validate + _build_tzaware = the documented cascade spec_zone
   (tzinfos mapping/callable -> local zone names -> UTC designators and zero offsets -> fixed
   offset -> unknown abbreviation: naive + warning -> naive) on the (tzname, tzoffset) the scan found *)
(* SCOPE: posix_form = false.  The 'GMT+h' clause of spec_zone (posix_form = true: the sign is reversed and a UTC
   alias is dropped) is implemented by the scan, which rewrites the sign token, not by validate/_build_tzaware; it is
   related to the model only by C15_gmt_plus_h_is_behind below (the single text "10:00 GMT+h", h = 1..23) and
   otherwise by the differential zone stream. *)
Theorem C15_tz_cascade : forall o cy r0 r,
  validate cy r0 = Ok r -> r_tzname r0 <> Some [] ->
  build_tzaware o r =
  of_zres o (spec_zone (o_tzinfos o) (o_local o) (o_nm0 o || o_nm1 o)
                       (r_tzname r0) (r_tzoffset r0) false).
Proof. exact tz_cascade_lemma. Qed.
Print Assumptions C15_tz_cascade.

Theorem C15_unknown_abbr_naive_with_warning : forall o r c n,
  o_tzinfos o = TINone -> r_tzname r = Some (c :: n) -> smem (c :: n) (o_local o) = false ->
  r_tzoffset r = None -> build_tzaware o r = Ok (ZNaive, 0, true).
Proof. exact unknown_abbr_lemma. Qed.
Print Assumptions C15_unknown_abbr_naive_with_warning.

(* 'GMT+h' reads as h hours behind UTC (h in 1..23, the bound is the property's own range) *)
Theorem C15_gmt_plus_h_is_behind : forall h, 1 <= h <= 23 ->
  parse opts_plain (gmt_plus_text h) =
  OutOk (mkDt 2003 9 25 10 0 0 0) (ZOffset None (- (h * 3600))) 0 false [].
Proof. exact gmt_plus_h_lemma. Qed.
Print Assumptions C15_gmt_plus_h_is_behind.

(* the construction step refines the default-fill specification: fields given by the text replace
   those of the default, an absent day is the default day clipped to the month, a bare weekday
   moves forward to the first such weekday found by search; success and value agree both ways *)
Theorem C15_build_naive_refines_spec_fill : forall r d x,
  wd_ok (r_weekday r) ->
  (build_naive r d = Ok x <->
   spec_fill (r_year r) (r_month r) (r_day r) (r_hour r) (r_minute r) (r_second r) (r_us r) (r_weekday r) d
   = FillOk x).
Proof. exact build_naive_refines_spec_fill. Qed.
Print Assumptions C15_build_naive_refines_spec_fill.

(* fuzzy_with_tokens: the skipped strings are, one by one and in order of appearance, the texts of the
   maximal runs of consecutive skipped positions of the REAL token list: l' is the lexer's output
   `timelex s` except that a sign token after a zone name may have been reversed in place by the run
   (`GMT+3`: l[i+1] = '-'), flip_rel; idxs are strictly increasing valid positions of l'.
   (An earlier version quantified the token list existentially and was vacuous; audit 02 Oct.) *)
From V Require Import parse.SkipThm2.

Theorem C15_skipped_tokens_in_order : forall fz yf df cur s r toks,
  50 <= cur -> parse_res fz true yf df cur s = Ok (Some (r, toks)) ->
  exists (l' : list str) (idxs : list nat),
    flip_rel (timelex s) l' /\ asc 0 idxs /\ (forall k, In k idxs -> (k < length l')%nat) /\
    toks = map (run_text l') (runs idxs).
Proof. exact skipped_tokens_in_order2_lemma. Qed.
Print Assumptions C15_skipped_tokens_in_order.

(* "any text accepted without fuzzy yields the same result with fuzzy" -- proved for ALL texts and
   options under the guard strict_no_clash: the strict run never reaches an AM/PM word while an
   AM/PM flag is already set.  The complement of the guard is exactly the open finding F-C15-ampm
   (C15_fuzzy_conservative_refuted above; C15_d15_outside_guard: its witness violates the guard). *)
Theorem C15_fuzzy_conservative_guarded : forall o s d z f w toks,
  strict_no_clash (o_cur_year o) s ->
  parse (set_fuzzy o false) s = OutOk d z f w toks ->
  parse (set_fuzzy o true) s = OutOk d z f w toks.
Proof. exact fuzzy_conservative_guarded_lemma. Qed.
Print Assumptions C15_fuzzy_conservative_guarded.

Theorem C15_guard_example : strict_no_clash 2026 [49; 48; 58; 48; 48; 32; 112; 109].
Proof. exact strict_no_clash_example. Qed.
Print Assumptions C15_guard_example.

Theorem C15_d15_outside_guard : ~ strict_no_clash 2026 [49; 48; 58; 48; 48; 32; 97; 109; 32; 112; 109].
Proof. exact d15_outside_guard. Qed.
Print Assumptions C15_d15_outside_guard.

(* the guard is computable: strict_clash is what the matcher of F-C15-ampm evaluates (extracted) *)
Theorem C15_guard_computable : forall cy s, strict_clash cy s = false <-> strict_no_clash cy s.
Proof. exact strict_clash_iff. Qed.
Print Assumptions C15_guard_computable.

(* F-C15-tzlocal-range: the decision table when tz.tzlocal can fail (parse/Local.v).  build_tzaware_lz is
   _build_tzaware with the OverflowError of tzlocal.tzname() on the local-zone row; spec_zone_lz is spec_zone
   with that row answering OverflowError when tzlocal_raises holds; guard = tzlocal_raises false *)
From V Require Import parse.Local parse.LocalThm.

Theorem C15_tz_cascade_lz : forall o lz naive cy r0 r,
  validate cy r0 = Ok r -> r_tzname r0 <> Some [] ->
  build_tzaware_lz o lz naive r =
  of_zres o (spec_zone_lz (o_tzinfos o) (o_local o) (o_nm0 o || o_nm1 o) (tzlocal_raises lz naive)
                          (r_tzname r0) (r_tzoffset r0) false).
Proof. exact tz_cascade_lz_lemma. Qed.
Print Assumptions C15_tz_cascade_lz.

Theorem C15_spec_zone_lz_guarded : forall ti loc lm n off pf,
  spec_zone_lz ti loc lm false n off pf = spec_zone ti loc lm n off pf.
Proof. exact spec_zone_lz_no_raise. Qed.
Print Assumptions C15_spec_zone_lz_guarded.

Theorem C15_spec_zone_lz_refuted : forall ti loc lm n off pf w,
  spec_zone ti loc true n off pf = ZR ZLocal w -> spec_zone_lz ti loc lm true n off pf = ZROverflow.
Proof. exact spec_zone_lz_raise. Qed.
Print Assumptions C15_spec_zone_lz_refuted.

(* ------------------------------------------------------------------------------------------------
   Model <-> source (iso builder, notes/parse_gen.md).  coq/gen/ParseGen.v is regenerated from
   /repo/src/dateutil/parser/_parser.py by the fail-closed translator harness/gen_parse.py on every run; each
   translated function equals the corresponding function of the hand model for all inputs (parse/ParseGenThm*.v;
   statements in parse/ParseGenProps.v).  The untranslated parts of _parser.py are pinned by AST hash in the translator:
   any edit of them, or a translated function whose meaning changes, makes these theorems fail. *)
From V Require Import parse.ParseGenLib gen.ParseGen parse.ParseGenThm parse.ParseGenThm2 parse.ParseGenProps.

Theorem C15_gen_parserinfo_lookups : gen_parserinfo_lookups_stmt.
Proof. exact gen_parserinfo_lookups. Qed.
Print Assumptions C15_gen_parserinfo_lookups.

Theorem C15_gen_convertyear : gen_convertyear_stmt.
Proof. exact pg_convertyear_eq. Qed.
Print Assumptions C15_gen_convertyear.

Theorem C15_gen_validate : gen_validate_stmt.
Proof. exact pg_validate_eq. Qed.
Print Assumptions C15_gen_validate.

Theorem C15_gen_could_be_day : gen_could_be_day_stmt.
Proof. exact pg_could_be_day_eq. Qed.
Print Assumptions C15_gen_could_be_day.

Theorem C15_gen_resolve_ymd : gen_resolve_ymd_stmt.
Proof. exact pg_resolve_ymd_eq. Qed.
Print Assumptions C15_gen_resolve_ymd.

Theorem C15_gen_append : gen_append_stmt.
Proof. exact gen_append. Qed.
Print Assumptions C15_gen_append.

Theorem C15_gen_ampm : gen_ampm_stmt.
Proof. exact gen_ampm. Qed.
Print Assumptions C15_gen_ampm.

Theorem C15_gen_could_be_tzname : gen_could_be_tzname_stmt.
Proof. exact pg_could_be_tzname_eq. Qed.
Print Assumptions C15_gen_could_be_tzname.

Theorem C15_gen_parse_min_sec : gen_parse_min_sec_stmt.
Proof. exact pg_parse_min_sec_eq. Qed.
Print Assumptions C15_gen_parse_min_sec.

Theorem C15_gen_parsems : gen_parsems_stmt.
Proof. exact pg_parsems_eq. Qed.
Print Assumptions C15_gen_parsems.

Theorem C15_gen_assign_hms : gen_assign_hms_stmt.
Proof. exact pg_assign_hms_eq. Qed.
Print Assumptions C15_gen_assign_hms.

Theorem C15_gen_find_hms_idx : gen_find_hms_idx_stmt.
Proof. exact pg_find_hms_idx_eq. Qed.
Print Assumptions C15_gen_find_hms_idx.

Theorem C15_gen_parse_hms : gen_parse_hms_stmt.
Proof. exact pg_parse_hms_eq. Qed.
Print Assumptions C15_gen_parse_hms.

Theorem C15_gen_parse_numeric_token : gen_parse_numeric_stmt.
Proof. exact pg_parse_numeric_eq. Qed.
Print Assumptions C15_gen_parse_numeric_token.
