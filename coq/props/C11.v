(* C11 -- cached recurrences behave like uncached ones under any interleaving; no deadlock.
   Statements only; proofs are in rcache/RCacheThm.v.

   The transition system (rcache/RCacheModel.v) has one program counter per source line of
   rrulebase._iter_cached / __iter__ / count / the query methods; `step seq true false st t` runs one line
   of thread t (None = blocked in acquire() or finished); `exec` folds a schedule (ANY list of thread
   ids) over it; `reach seq ops sched` = exec seq true false sched (init ops).  `seq` is the sequence the
   uncached rule yields -- arbitrary; `ops` any list of operations (iterators, first-k, index, count,
   contains, between, before, after), one thread each.  `true` = the code after fix bb46216. *)
From Coq Require Import ZArith List Bool.
From V Require Import rcache.PyList rcache.RCacheModel rcache.RCacheSpec rcache.RQueryModel
  rcache.RQuerySpec rcache.RCacheThm.
From V Require Import rcache.RGenBase gen.RCacheGen rcache.RCacheGenThm.
Import ListNotations.
Open Scope Z_scope.

(* the invariant (RCacheThm.Inv) holds in every state reachable under any schedule *)
Theorem C11_invariant_reachable : forall seq ops sched, Inv seq (reach seq ops sched).
Proof. exact inv_reachable. Qed.
Print Assumptions C11_invariant_reachable.

(* its shared-state part, spelled out: the cache is a prefix of seq; complete -> the cache is all of
   seq and _len = |seq|; the lock is held by t iff t's pc is inside the critical section *)
Theorem C11_cache_inv : forall seq ops sched,
  let s := reach seq ops sched in
  cache (sh s) = firstn (length (cache (sh s))) seq /\
  (complete (sh s) = true -> cache (sh s) = seq /\ lenp (sh s) = Some (length seq)) /\
  (forall t th, nth_error (thr s) t = Some th -> (in_crit (t_pc th) = true <-> lock (sh s) = Some t)).
Proof. exact cache_inv. Qed.
Print Assumptions C11_cache_inv.

(* every thread has received a prefix of seq; a finished operation returned the uncached answer
   (done_ok: spec_result, or list membership for `x in rule` on the complete cache) -- in particular
   it never raised TypeError / IndexError unless the uncached rule raises IndexError *)
Theorem C11_observes_uncached : forall seq ops sched t th,
  nth_error (thr (reach seq ops sched)) t = Some th ->
  is_prefix (t_out th) seq /\
  (forall r, t_res th = Some r -> t_pc th = PDone -> done_ok seq (t_op th) r) /\
  (t_pc th = PDone -> exists r, t_res th = Some r /\ done_ok seq (t_op th) r).
Proof. exact observes_uncached. Qed.
Print Assumptions C11_observes_uncached.

(* iterators: no hypothesis on seq *)
Theorem C11_iterator_yields_seq : forall seq ops sched t th,
  nth_error (thr (reach seq ops sched)) t = Some th ->
  is_prefix (t_out th) seq /\
  (t_op th = OList -> t_pc th = PDone -> t_res th = Some (Ret seq)).
Proof. exact iterator_yields_seq. Qed.
Print Assumptions C11_iterator_yields_seq.

(* every operation, for strictly increasing seq (what recurrences are) *)
Theorem C11_results_match_uncached : forall seq ops sched t th,
  incr seq ->
  nth_error (thr (reach seq ops sched)) t = Some th -> t_pc th = PDone ->
  t_res th = Some (spec_result (t_op th) seq).
Proof. exact results_match_uncached. Qed.
Print Assumptions C11_results_match_uncached.

(* no deadlock: in every reachable state with an unfinished operation some thread can step *)
Theorem C11_no_deadlock : forall seq ops sched,
  all_done (reach seq ops sched) = false -> exists t, step seq true false (reach seq ops sched) t <> None.
Proof. exact no_deadlock. Qed.
Print Assumptions C11_no_deadlock.

(* bounded lock hold: a lock holder is never blocked and each of its steps decreases a rank <= 31;
   at rank 1 the step releases the lock *)
Theorem C11_bounded_lock_hold : forall seq s t th,
  in_crit (t_pc th) = true ->
  (crit_rank (t_pc th) <= 31)%nat /\
  exists s' th', step_thread seq true false s t th = Some (s', th') /\
                 (in_crit (t_pc th') = true -> (crit_rank (t_pc th') < crit_rank (t_pc th))%nat) /\
                 (crit_rank (t_pc th) = 1%nat -> lock s' = None /\ in_crit (t_pc th') = false).
Proof. exact crit_progress. Qed.
Print Assumptions C11_bounded_lock_hold.

(* termination: every successful step strictly decreases the measure `total` (sum over threads of
   64*(|seq|+1-i) + rank pc), so no run takes more than length ops * (64*(|seq|+1)+72) steps
   (`taken` counts the schedule entries that moved a thread), and from every reachable state some
   continuation of at most that many enabled steps completes ALL operations: every operation completes
   under any scheduler that keeps running enabled threads *)
Theorem C11_step_decreases : forall seq st t st',
  Inv seq st -> step seq true false st t = Some st' -> (total seq st' < total seq st)%nat.
Proof. exact step_decreases. Qed.
Print Assumptions C11_step_decreases.

Theorem C11_every_operation_completes : forall seq ops sched,
  let bound := (length ops * ((length seq + 1) * 64 + 72))%nat in
  (taken seq sched (init ops) <= bound)%nat /\
  exists ext, (length ext <= bound)%nat /\
              all_done (exec seq true false (sched ++ ext) (init ops)) = true.
Proof. exact every_operation_completes. Qed.
Print Assumptions C11_every_operation_completes.

(* bounded steps per item: while an iterator's cursor i is unchanged each of its steps strictly decreases
   rank (<= 70); i changes only in `i += 1` right after a yield: the next value (or the end) comes within
   71 own steps, for every |seq| and whatever other threads do (they may delay it only while holding the
   lock, at most 31 of their own steps: C11_bounded_lock_hold) *)
Theorem C11_steps_per_item_bounded : forall seq s t th s' th',
  shared_inv seq s -> thread_inv seq s th ->
  step_thread seq true false s t th = Some (s', th') ->
  t_i th' = t_i th -> t_pc th' <> PDone -> t_pc th' <> PRetLen ->
  (rank (t_pc th') < rank (t_pc th) <= 70)%nat.
Proof. exact steps_per_item_bounded. Qed.
Print Assumptions C11_steps_per_item_bounded.

(* the fuelled drivers of single-threaded histories (RCacheModel.run_next / run_done, used by the
   extracted oracle with this fuel) never run out of fuel and never deadlock from a quiescent state *)
Theorem C11_history_drivers_total : forall seq st t th have,
  Inv seq st -> quiet st -> nth_error (thr st) t = Some th ->
  let fuel := (64 * (length seq + 1) + 80)%nat in
  (exists st', Inv seq st' /\ quiet st' /\
               ((exists v, run_next seq true false fuel st t have = NValue v st') \/
                run_next seq true false fuel st t have = NStop st' \/
                (exists e, run_next seq true false fuel st t have = NRaise e st'))) /\
  (exists st' th', run_done seq true false fuel st t = Some (Some st') /\ Inv seq st' /\ quiet st' /\
                   nth_error (thr st') t = Some th' /\ t_pc th' = PDone).
Proof. exact history_drivers_total. Qed.
Print Assumptions C11_history_drivers_total.

(* _invalidate_cache (every rruleset mutator).  Mutators are not operations of the transition system; they are
   the boundary between two runs of it.  The real statement: iterate (ANY operations, ANY schedule), let every
   operation finish (all_done), MUTATE (invalidate resets _cache/_cache_complete/_cache_gen/_len; the finished
   threads stay), start ANY new operations and run ANY schedule against the NEW sequence seq':  the invariant
   holds for the new threads (InvFrom (length ops): lock discipline over ALL threads, the cache is a prefix of
   seq', every new thread satisfies thread_inv for seq'), every new thread has yielded a prefix of seq', and a
   finished new operation returned its answer for seq'.  With a live iterator in its tail loop instead, the
   next step raises TypeError -- one face of the open finding F-C10-stale (C10, coq/rset/RSetHist.v has the
   other); that is the refuted witness below. *)
Theorem C11_invalidate_then_iterate : forall seq seq' ops sched ops2 sched2,
  all_done (reach seq ops sched) = true ->
  let st := exec seq' true false sched2 (after_invalidate (reach seq ops sched) ops2) in
  InvFrom (length ops) seq' st /\
  forall t th, (length ops <= t)%nat -> nth_error (thr st) t = Some th ->
    is_prefix (t_out th) seq' /\
    (t_pc th = PDone -> exists r, t_res th = Some r /\ done_ok seq' (t_op th) r).
Proof. exact invalidate_then_iterate. Qed.
Print Assumptions C11_invalidate_then_iterate.

(* count() returns the number of items the iteration yielded: `_len` is a FIELD of the shared state (lenp),
   None until the generator's last statement publishes it; a finished count() read |seq| from it, under any
   schedule and whatever the other threads did *)
Theorem C11_count_returns_length : forall seq ops sched t th,
  nth_error (thr (reach seq ops sched)) t = Some th -> t_op th = OCount -> t_pc th = PDone ->
  t_res th = Some (Ret [Z.of_nat (length seq)]).
Proof. exact count_returns_length. Qed.
Print Assumptions C11_count_returns_length.

Theorem C11_invalidate_live_iterator_refuted :
  (exists th, nth_error (thr (exec [1;2;3] true false (repeat 0%nat 26) (init [OList]))) 0 = Some th /\ t_pc th = PTWhile) /\
  (exists th', nth_error (thr (exec [1;2;3] true false (repeat 0%nat 1) iv_state)) 0 = Some th' /\
               t_res th' = Some (Raise ETypeError)).
Proof. exact invalidate_live_iterator_refuted. Qed.
Print Assumptions C11_invalidate_live_iterator_refuted.

(* ---- a CHECKED SYNTACTIC FINGERPRINT of the source: gen/RCacheGen.v is REGENERATED from
   /repo/src/dateutil/rrule.py by harness/gen_rcache.py on every run: _iter_cached as one instruction TAG per
   source line (line offset, kind, jump targets), _invalidate_cache / __init__ as shared-state functions.  The
   MEANING of each tag is hand-written (RGenBase.exec_instr), so this theorem does not give an independent
   semantics of the Python; what it gives: the shape the translator read from the source (which statement is
   on which line, where each branch / loop / finally goes, the batch size) is exactly the shape the
   hand-written step function assumes, for every state, thread and program counter that is a line of
   _iter_cached -- the "source line -> pc" correspondence is checked, not trusted, and an edit of /repo that
   changes the shape fails the build or the translator.  C11_gen_init_is_model and C11_gen_batch_is_model are
   reflexivity on regenerated constants (definitional ties, listed as `tie_only` in the evidence). *)
Theorem C11_gen_table_is_model : forall seq raises s t th k,
  line_of_pc (t_pc th) = Some k ->
  table_step seq raises gen_iter_cached s t th = line_step seq raises s t th.
Proof. exact gen_table_is_model. Qed.
Print Assumptions C11_gen_table_is_model.

Theorem C11_gen_batch_is_model : lookup gen_iter_cached 13 = Some (IFor batch 20).
Proof. exact gen_batch_is_model. Qed.
Print Assumptions C11_gen_batch_is_model.

Theorem C11_gen_invalidate_is_model : forall st, St (gen_invalidate (sh st)) (thr st) = invalidate st.
Proof. exact gen_invalidate_is_model. Qed.
Print Assumptions C11_gen_invalidate_is_model.

Theorem C11_gen_init_is_model : forall s, gen_init s = init_shared.
Proof. exact gen_init_is_model. Qed.
Print Assumptions C11_gen_init_is_model.

(* the code before bb46216 (`false`) deadlocks: two iterators over a 10-element rule *)
Theorem C11_prefix_code_no_deadlock_refuted :
  let s := exec dl_seq false false dl_sched (init [OList; OList]) in
  all_done s = false /\ stuck dl_seq false false s = true.
Proof. exact prefix_code_deadlocks. Qed.
Print Assumptions C11_prefix_code_no_deadlock_refuted.

(* Finding F-C11-raise (outside the theorems above, which are about generators that end normally,
   `raises = false`): with a generator that raises, three consecutive list(rule) observe
   ValueError, TypeError, then a silently "complete" cache; the uncached rule raises ValueError each time *)
Theorem C11_raising_generator_refuted :
  map t_res (thr (exec [] true true rz_sched (init [OList; OList; OList]))) =
    [Some (Raise EValueError); Some (Raise ETypeError); Some (Ret [])] /\
  map t_res (thr (exec [1;2;3] true true rz_sched (init [OList; OList; OList]))) =
    [Some (Raise EValueError); Some (Raise ETypeError); Some (Ret [1;2;3])] /\
  spec_result_raising OList [] = Raise EValueError /\ spec_result_raising OList [1;2;3] = Raise EValueError.
Proof. exact raising_generator_differs. Qed.
Print Assumptions C11_raising_generator_refuted.

(* non-vacuity: a concrete run of five concurrent operations finishes with the uncached answers *)
Theorem C11_example :
  let s := reach [10;20;30] [OList; OGet 1; OCount; OContains 20; OBetween 10 30 false]
                 (flat_map (fun _ => [0;1;2;3;4]%nat) (seq 0 80)) in
  all_done s = true /\
  map t_res (thr s) = [Some (Ret [10;20;30]); Some (Ret [20]); Some (Ret [3]); Some (Ret [1]); Some (Ret [20])].
Proof. exact reach_example. Qed.
Print Assumptions C11_example.
