(* C11 -- cached recurrences behave like uncached ones under any interleaving (statements only). *)
From Coq Require Import ZArith List Bool.
From V Require Import rcache.RCacheModel rcache.RCacheSpec rcache.RCacheThm.
Import ListNotations.
Open Scope Z_scope.

Theorem C11_prefix_code_deadlocks_refuted :
  let s := exec dl_seq false dl_sched (init [OList; OList]) in
  all_done s = false /\ stuck dl_seq false s = true.
Proof. exact prefix_code_deadlocks. Qed.
Print Assumptions C11_prefix_code_deadlocks_refuted.
