#!/bin/bash
# Build the whole framework offline from files on disk: generated Coq files from /repo,
# full .vo build (coq_makefile + make, never -vos), extraction, OCaml oracles.
cd "$(dirname "$0")"
exec /venv/bin/python harness/setup.py
